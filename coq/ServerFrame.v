(* ServerFrame.v -- frame lemmas for the iodined dispatcher model (Server.v), shared by the
   proofs of C03 (no access without login) and C04 (session isolation).

   Vocabulary
     sec u            the access-control relevant fields of a session record:
                      (active, auth, auth_raw, locked, disabled, seed, tun_ip, host, enc, downenc,
                       lazy, fragsize, conn)
     sec_same st st'  same number of slots and [sec] of every slot unchanged
     routable         the predicate tested by find_user_by_ip
     ans_for / out_for  the outputs a fragment emission for one session may produce

   The data-path functions (send_chunk_or_dataless, process_downstream_ack, the packet queue,
   the caches, handle_full_packet, handle_ping, handle_data, tunnel_tun, the sweeps) never touch
   [sec]; handle_full_packet and tunnel_tun touch only the sender's slot and the slot that
   find_user_by_ip returns. *)
From Coq Require Import List NArith ZArith Arith Bool Lia.
From RecordUpdate Require Import RecordUpdate.
From Iodine Require Import Generated.SrcConsts Base Codec Hostname DnsName DnsMsg Domain Server.
Import ListNotations.
Local Open Scope N_scope.

(* ---- small tactics ---------------------------------------------------------------------- *)

(* turn the outermost [let x := v in b] of the goal into a local definition *)
Ltac name_let :=
  lazymatch goal with
  | |- context C [let x := ?v in @?b x] =>
      let x' := fresh x in
      pose (x' := v);
      let g := context C [b x'] in
      change g; cbv beta
  end.

(* ---- list_eqb ---------------------------------------------------------------------------- *)

Lemma list_eqb_eq a b : list_eqb a b = true <-> a = b.
Proof.
  unfold list_eqb. revert b. induction a as [|x a IH]; intros [|y b]; simpl; split; intros H;
    try reflexivity; try discriminate.
  - apply andb_true_iff in H. destruct H as [Hl H]. apply andb_true_iff in H. destruct H as [Hxy H].
    apply N.eqb_eq in Hxy. subst y. f_equal. apply IH. rewrite Hl. exact H.
  - inversion H; subst. rewrite Nat.eqb_refl, N.eqb_refl. simpl.
    pose proof (proj2 (IH b) eq_refl) as H1. rewrite Nat.eqb_refl in H1. exact H1.
Qed.

Lemma list_eqb_refl a : list_eqb a a = true.
Proof. apply list_eqb_eq. reflexivity. Qed.

(* ---- upd / getu -------------------------------------------------------------------------- *)

Lemma upd_nil i f : upd [] i f = [].
Proof. unfold upd. destruct i; reflexivity. Qed.

Lemma upd_cons_0 u st f : upd (u :: st) 0 f = f u :: st.
Proof. reflexivity. Qed.

Lemma upd_cons_S u st i f : upd (u :: st) (S i) f = u :: upd st i f.
Proof. reflexivity. Qed.

Lemma upd_length st : forall i f, length (upd st i f) = length st.
Proof.
  induction st as [|u st IH]; intros i f; [rewrite upd_nil; reflexivity|].
  destruct i; [reflexivity|]. rewrite upd_cons_S. simpl. rewrite IH. reflexivity.
Qed.

Lemma upd_oob st : forall i f, (length st <= i)%nat -> upd st i f = st.
Proof.
  induction st as [|u st IH]; intros i f H; [apply upd_nil|].
  destruct i; [simpl in H; lia|]. rewrite upd_cons_S, IH; [reflexivity|simpl in H; lia].
Qed.

Lemma getu_upd st : forall i j f,
  getu (upd st i f) j = if (j =? i)%nat && (i <? length st)%nat then f (getu st i) else getu st j.
Proof.
  induction st as [|u st IH]; intros i j f.
  - rewrite upd_nil. simpl. rewrite andb_false_r. reflexivity.
  - destruct i as [|i].
    + rewrite upd_cons_0. destruct j; reflexivity.
    + rewrite upd_cons_S. destruct j as [|j]; [reflexivity|].
      unfold getu in *. simpl nth. rewrite IH. reflexivity.
Qed.

Lemma getu_upd_same st i f : (i < length st)%nat -> getu (upd st i f) i = f (getu st i).
Proof.
  intros H. rewrite getu_upd, Nat.eqb_refl. destruct (i <? length st)%nat eqn:E; [reflexivity|].
  apply Nat.ltb_ge in E. lia.
Qed.

Lemma getu_upd_other st i j f : j <> i -> getu (upd st i f) j = getu st j.
Proof.
  intros H. rewrite getu_upd. destruct (j =? i)%nat eqn:E; [apply Nat.eqb_eq in E; contradiction|reflexivity].
Qed.

Lemma upd_upd st : forall i f g, upd (upd st i f) i g = upd st i (fun u => g (f u)).
Proof.
  induction st as [|u st IH]; intros i f g; [rewrite !upd_nil; reflexivity|].
  destruct i; [reflexivity|]. rewrite !upd_cons_S, IH. reflexivity.
Qed.

Lemma getu_oob st j : (length st <= j)%nat -> getu st j = user_init 0.
Proof. intros H. unfold getu. apply nth_overflow. exact H. Qed.

(* two tables with the same slots *)
Lemma getu_ext st st' : length st' = length st -> (forall j, getu st' j = getu st j) -> st' = st.
Proof.
  revert st'. induction st as [|u st IH]; intros [|u' st'] Hl H; try discriminate; [reflexivity|].
  f_equal; [exact (H O)|]. apply IH; [simpl in Hl; lia|]. intros j. exact (H (S j)).
Qed.

(* ---- the access-control projection --------------------------------------------------------- *)

Definition sec (u : suser) :=
  (u_active u, u_auth u, u_auth_raw u, u_locked u, u_disabled u, u_seed u, u_tun_ip u, u_host u,
   u_enc u, u_downenc u, u_lazy u, u_fragsize u, u_conn u).

Lemma sec_fields u v : sec u = sec v ->
  u_active u = u_active v /\ u_auth u = u_auth v /\ u_auth_raw u = u_auth_raw v /\
  u_locked u = u_locked v /\ u_disabled u = u_disabled v /\ u_seed u = u_seed v /\
  u_tun_ip u = u_tun_ip v /\ u_host u = u_host v /\ u_enc u = u_enc v /\
  u_downenc u = u_downenc v /\ u_lazy u = u_lazy v /\ u_fragsize u = u_fragsize v /\
  u_conn u = u_conn v.
Proof. unfold sec. intros H. inversion H. repeat split; assumption. Qed.

Definition sec_same (st st' : sstate) : Prop :=
  length st' = length st /\ forall j, sec (getu st' j) = sec (getu st j).

Lemma sec_same_refl st : sec_same st st.
Proof. split; reflexivity. Qed.

Lemma sec_same_trans a b c : sec_same a b -> sec_same b c -> sec_same a c.
Proof. intros [L1 H1] [L2 H2]. split; [congruence|]. intros j. rewrite H2, H1. reflexivity. Qed.

Lemma sec_same_upd_const st i u' : sec u' = sec (getu st i) -> sec_same st (upd st i (fun _ => u')).
Proof.
  intros H. split; [apply upd_length|]. intros j. rewrite getu_upd.
  destruct ((j =? i)%nat && (i <? length st)%nat) eqn:E; [|reflexivity].
  apply andb_true_iff in E. destruct E as [E _]. apply Nat.eqb_eq in E. subst j. exact H.
Qed.

Lemma sec_same_upd st i f : (forall u, sec (f u) = sec u) -> sec_same st (upd st i f).
Proof.
  intros H. split; [apply upd_length|]. intros j. rewrite getu_upd.
  destruct ((j =? i)%nat && (i <? length st)%nat) eqn:E; [|reflexivity].
  apply andb_true_iff in E. destruct E as [E _]. apply Nat.eqb_eq in E. subst j. apply H.
Qed.

(* ---- queue, caches: frame ----------------------------------------------------------------- *)

Definition qq (u : suser) := (u_q u, u_qs u).

Lemma sec_start u d : sec (start_new_outpacket u d) = sec u. Proof. reflexivity. Qed.
Lemma qq_start u d : qq (start_new_outpacket u d) = qq u. Proof. reflexivity. Qed.

Lemma sec_saveq u d : sec (fst (save_to_outpacketq u d)) = sec u.
Proof. unfold save_to_outpacketq. destruct (QLEN <=? u_queue_filled u)%nat; reflexivity. Qed.
Lemma qq_saveq u d : qq (fst (save_to_outpacketq u d)) = qq u.
Proof. unfold save_to_outpacketq. destruct (QLEN <=? u_queue_filled u)%nat; reflexivity. Qed.

Lemma sec_getq u : sec (fst (get_from_outpacketq u)) = sec u.
Proof. unfold get_from_outpacketq. destruct (u_queue_filled u); reflexivity. Qed.
Lemma qq_getq u : qq (fst (get_from_outpacketq u)) = qq u.
Proof. unfold get_from_outpacketq. destruct (u_queue_filled u); reflexivity. Qed.

Lemma sec_drop u : sec (drop_outpacket u) = sec u. Proof. reflexivity. Qed.
Lemma qq_drop u : qq (drop_outpacket u) = qq u. Proof. reflexivity. Qed.

Lemma sec_setq u w q : sec (setq u w q) = sec u. Proof. destruct w; reflexivity. Qed.

Lemma sec_cache u q id a : sec (save_to_dnscache u q id a) = sec u.
Proof. unfold save_to_dnscache. destruct (_ <? _)%nat; reflexivity. Qed.

Lemma sec_qmem u q : sec (save_to_qmem_pingordata u q) = sec u.
Proof.
  unfold save_to_qmem_pingordata.
  destruct (is_letter _ _).
  - destruct (index_of _ _ _); [|reflexivity]. destruct (_ <? _)%nat; [reflexivity|].
    destruct (save_to_qmem _ _ _ _ _). reflexivity.
  - destruct (_ <? _)%nat; [reflexivity|]. destruct (save_to_qmem _ _ _ _ _). reflexivity.
Qed.

Lemma sec_remember_dup u q w : sec (remember_dup u q w) = sec u.
Proof. unfold remember_dup. apply sec_setq. Qed.

Lemma sec_pda u s f : sec (process_downstream_ack u s f) = sec u.
Proof.
  unfold process_downstream_ack.
  repeat (match goal with |- context [if ?c then _ else _] => destruct c end);
    rewrite ?sec_getq; reflexivity.
Qed.

(* ---- send_chunk_or_dataless in stages ------------------------------------------------------ *)

Definition scod_u1 (u0 : suser) : suser :=
  if (0 <? p_len (u_out u0)) && (5 <? u_resent u0) then fst (get_from_outpacketq (drop_outpacket u0)) else u0.
Definition scod_datalen (u1 : suser) : N :=
  let o := u_out u1 in if 0 <? p_len o then N.min (N.min (u_fragsize u1) (p_len o - p_offset o)) 4094 else 0.
Definition scod_u2 (u1 : suser) : suser :=
  if 0 <? p_len (u_out u1)
  then u1 <| u_out := (u_out u1) <| p_sentlen := scod_datalen u1 |> |> <| u_resent := u_resent u1 + 1 |>
  else u1.
Definition scod_pktb (u1 u2 : suser) : list N :=
  let o := u_out u1 in
  let has := 0 <? p_len o in
  let datalen := scod_datalen u1 in
  let payload := firstn (N.to_nat datalen) (skipn (N.to_nat (p_offset o)) (p_data o)) in
  let last := has && (p_len o =? p_offset o + datalen) in
  let o2 := u_out u2 in
  let b0 := 128 + (p_seqno (u_in u2) mod 8) * 16 + Z.to_N (p_fragment (u_in u2) mod 16) in
  let b1 := (p_seqno o2 mod 8) * 32 + Z.to_N (p_fragment o2 mod 16) * 2 + (if last then 1 else 0) in
  b0 :: b1 :: payload.
Definition scod_q' (q : hq) : hq :=
  if negb (h_id2 q =? 0) then q <| h_id := h_id2 q |> <| h_from := h_from2 q |> else q.
Definition scod_outs (q : hq) (pktb : list N) (d : N) : list out :=
  [OAnswer q (h_id q) (h_from q) pktb d] ++
  (if negb (h_id2 q =? 0) then [OAnswer q (h_id2 q) (h_from2 q) pktb d] else []).
Definition scod_u5 (u2 : suser) (w : which_q) (pktb : list N) : suser :=
  let q' := scod_q' (getq u2 w) in
  setq (save_to_dnscache (save_to_qmem_pingordata u2 q') q' (h_id q') pktb) w (q' <| h_id := 0 |>).
Definition scod' (u0 : suser) (w : which_q) : suser * list out * bool :=
  let u1 := scod_u1 u0 in
  let u2 := scod_u2 u1 in
  let pktb := scod_pktb u1 u2 in
  let datalen := scod_datalen u1 in
  let u5 := scod_u5 u2 w pktb in
  let outs := scod_outs (getq u2 w) pktb (u_downenc u2) in
  if (0 <? datalen) && (datalen =? p_len (u_out u5)) then
    (fst (get_from_outpacketq (drop_outpacket u5)), outs, snd (get_from_outpacketq (drop_outpacket u5)))
  else (u5, outs, false).

Lemma scod_eq u w : send_chunk_or_dataless u w = scod' u w.
Proof.
  unfold send_chunk_or_dataless, scod', scod_u5, scod_outs, scod_q', scod_pktb, scod_u2, scod_datalen. cbv zeta.
  set (u1 := scod_u1 u). fold (scod_u1 u). fold u1.
  destruct (0 <? p_len (u_out u1)); cbv beta iota;
  (match goal with |- context [negb (h_id2 ?q =? 0)] => destruct (negb (h_id2 q =? 0)) end);
  (match goal with |- (if ?c then _ else _) = _ => destruct c end); try reflexivity;
  (match goal with |- context [get_from_outpacketq ?x] => destruct (get_from_outpacketq x) end); reflexivity.
Qed.

Lemma sec_scod_u1 u : sec (scod_u1 u) = sec u.
Proof. unfold scod_u1. destruct (_ && _); [rewrite sec_getq; reflexivity|reflexivity]. Qed.
Lemma qq_scod_u1 u : qq (scod_u1 u) = qq u.
Proof. unfold scod_u1. destruct (_ && _); [rewrite qq_getq; reflexivity|reflexivity]. Qed.
Lemma sec_scod_u2 u : sec (scod_u2 u) = sec u.
Proof. unfold scod_u2. destruct (0 <? _); reflexivity. Qed.
Lemma qq_scod_u2 u : qq (scod_u2 u) = qq u.
Proof. unfold scod_u2. destruct (0 <? _); reflexivity. Qed.
Lemma sec_scod_u5 u w b : sec (scod_u5 u w b) = sec u.
Proof. unfold scod_u5. cbv zeta. rewrite sec_setq, sec_cache, sec_qmem. reflexivity. Qed.

Lemma getq_qq u v w : qq u = qq v -> getq u w = getq v w.
Proof. unfold qq. intros H. inversion H. destruct w; simpl; assumption. Qed.

(* the answers one emission may produce: to the asker of the held query, and to the asker of a
   remembered duplicate of it *)
Definition ans_for (q1 q2 : hq) (o : out) : Prop :=
  match o with
  | OAnswer q id to _ _ =>
      (q = q1 \/ q = q2) /\ ((id = h_id q /\ to = h_from q) \/ (id = h_id2 q /\ to = h_from2 q))
  | _ => False
  end.

Definition is_ans (o : out) : Prop := match o with OAnswer _ _ _ _ _ => True | _ => False end.

Lemma ans_for_is_ans q1 q2 o : ans_for q1 q2 o -> is_ans o.
Proof. destruct o; simpl; tauto. Qed.

Lemma scod_spec u w x o b : send_chunk_or_dataless u w = (x, o, b) ->
  sec x = sec u /\ Forall (ans_for (u_q u) (u_qs u)) o.
Proof.
  rewrite scod_eq. unfold scod'. cbv zeta.
  assert (Hq : getq (scod_u2 (scod_u1 u)) w = getq u w).
  { apply getq_qq. rewrite qq_scod_u2, qq_scod_u1. reflexivity. }
  rewrite Hq.
  assert (Ho : Forall (ans_for (u_q u) (u_qs u))
                 (scod_outs (getq u w) (scod_pktb (scod_u1 u) (scod_u2 (scod_u1 u))) (u_downenc (scod_u2 (scod_u1 u))))).
  { unfold scod_outs. assert (Hw : getq u w = u_q u \/ getq u w = u_qs u) by (destruct w; simpl; tauto).
    destruct (negb _); simpl; repeat (apply Forall_cons; [simpl; tauto|]); apply Forall_nil. }
  destruct (_ && _); intros H; inversion H; subst; split; try exact Ho.
  - rewrite sec_getq, sec_drop, sec_scod_u5, sec_scod_u2, sec_scod_u1. reflexivity.
  - rewrite sec_scod_u5, sec_scod_u2, sec_scod_u1. reflexivity.
Qed.

Lemma scod_sec u w : sec (fst (fst (send_chunk_or_dataless u w))) = sec u.
Proof.
  destruct (send_chunk_or_dataless u w) as [[x o] b] eqn:E. simpl. exact (proj1 (scod_spec _ _ _ _ _ E)).
Qed.

Lemma Forall_imp {A} (P Q : A -> Prop) l : (forall x, P x -> Q x) -> Forall P l -> Forall Q l.
Proof. intros H F. induction F; constructor; auto. Qed.

Lemma scod_is_ans u w x o b : send_chunk_or_dataless u w = (x, o, b) -> Forall is_ans o.
Proof.
  intros E. apply (Forall_imp (ans_for (u_q u) (u_qs u))); [apply ans_for_is_ans|].
  exact (proj2 (scod_spec _ _ _ _ _ E)).
Qed.

(* ---- routing --------------------------------------------------------------------------------- *)

Definition routable (now ip : N) (u : suser) : bool :=
  u_active u && u_auth u && negb (u_disabled u) && live now u && (ip =? u_tun_ip u).

Lemma fubi_from_spec st ip now : forall i0,
  match find_user_by_ip_from st ip now i0 with
  | Some t => (i0 <= t < i0 + length st)%nat /\ routable now ip (getu st (t - i0)) = true /\
              forall j, (j < t - i0)%nat -> routable now ip (getu st j) = false
  | None => forall j, (j < length st)%nat -> routable now ip (getu st j) = false
  end.
Proof.
  induction st as [|u st IH]; intros i0; simpl.
  - intros j Hj. lia.
  - fold (routable now ip u). destruct (routable now ip u) eqn:E.
    + rewrite Nat.sub_diag. split; [lia|]. split; [exact E|]. intros j Hj. lia.
    + specialize (IH (S i0)). destruct (find_user_by_ip_from st ip now (S i0)) as [t|].
      * destruct IH as (Hr & Ht & Hm). split; [lia|].
        replace (t - i0)%nat with (S (t - S i0)) by lia. split; [exact Ht|].
        intros [|j] Hj; [exact E|]. apply Hm. lia.
      * intros [|j] Hj; [exact E|]. apply IH. lia.
Qed.

Lemma fubi_some st ip now t : find_user_by_ip st ip now = Some t ->
  (t < length st)%nat /\ routable now ip (getu st t) = true /\
  forall j, (j < t)%nat -> routable now ip (getu st j) = false.
Proof.
  unfold find_user_by_ip. intros H. pose proof (fubi_from_spec st ip now O) as S. rewrite H in S.
  rewrite Nat.sub_0_r in S. destruct S as (A & B & C). split; [lia|]. split; assumption.
Qed.

Lemma fubi_none st ip now : find_user_by_ip st ip now = None ->
  forall j, routable now ip (getu st j) = false.
Proof.
  unfold find_user_by_ip. intros H j. pose proof (fubi_from_spec st ip now O) as S. rewrite H in S.
  destruct (Nat.lt_ge_cases j (length st)) as [Hj|Hj]; [apply S, Hj|].
  rewrite getu_oob by exact Hj. reflexivity.
Qed.

Lemma fubi_first st ip now t : (t < length st)%nat -> routable now ip (getu st t) = true ->
  (forall j, (j < t)%nat -> routable now ip (getu st j) = false) ->
  find_user_by_ip st ip now = Some t.
Proof.
  intros Ht Hr Hm. destruct (find_user_by_ip st ip now) as [t'|] eqn:E.
  - destruct (fubi_some _ _ _ _ E) as (A & B & C).
    destruct (Nat.lt_trichotomy t t') as [L|[L|L]]; [rewrite (C t L) in Hr; discriminate|subst; reflexivity|].
    rewrite (Hm t' L) in B. discriminate.
  - rewrite (fubi_none _ _ _ E t) in Hr. discriminate.
Qed.

(* what a fragment emission / raw forward for the session in slot t may output *)
Definition out_for (t : nat) (ut : suser) (o : out) : Prop :=
  match o with
  | ORaw to b => to = h_from (u_q ut) /\ exists d, b = raw_frame src_RAW_HDR_CMD_DATA t d
  | OAnswer _ _ _ _ _ => ans_for (u_q ut) (u_qs ut) o
  | _ => False
  end.

Lemma sec_same_slots st st' t : length st' = length st ->
  (forall j, j <> t -> getu st' j = getu st j) -> sec (getu st' t) = sec (getu st t) -> sec_same st st'.
Proof.
  intros L H1 H2. split; [exact L|]. intros j. destruct (Nat.eq_dec j t) as [->|Hj]; [exact H2|].
  rewrite H1 by exact Hj. reflexivity.
Qed.

Lemma sec_getu_upd_const st i u' : sec u' = sec (getu st i) -> sec (getu (upd st i (fun _ => u')) i) = sec (getu st i).
Proof. intros H. exact (proj2 (sec_same_upd_const st i u' H) i). Qed.

Lemma send_held_spec st t st' outs : send_held st t = (st', outs) ->
  length st' = length st /\ (forall j, j <> t -> getu st' j = getu st j) /\
  sec (getu st' t) = sec (getu st t) /\ Forall (ans_for (u_q (getu st t)) (u_qs (getu st t))) outs.
Proof.
  unfold send_held. cbv zeta.
  destruct (negb (h_id (u_qs (getu st t)) =? 0)); [|destruct (negb (h_id (u_q (getu st t)) =? 0))].
  - destruct (send_chunk_or_dataless (getu st t) WQS) as [[u' o] b] eqn:E. intros H; inversion H; subst.
    destruct (scod_spec _ _ _ _ _ E) as [Hs Ho].
    split; [apply upd_length|]. split; [intros j Hj; apply getu_upd_other, Hj|]. split; [|exact Ho].
    apply sec_getu_upd_const, Hs.
  - destruct (send_chunk_or_dataless (getu st t) WQ) as [[u' o] b] eqn:E. intros H; inversion H; subst.
    destruct (scod_spec _ _ _ _ _ E) as [Hs Ho].
    split; [apply upd_length|]. split; [intros j Hj; apply getu_upd_other, Hj|]. split; [|exact Ho].
    apply sec_getu_upd_const, Hs.
  - intros H; inversion H; subst. repeat split. constructor.
Qed.

(* destination lookup of a packet with the TUN + IP header: a packet shorter than 24 bytes has no
   destination session *)
Definition route (st : sstate) (now : N) (ip : list N) : option nat :=
  if (24 <=? length ip)%nat then find_user_by_ip st (le32_at ip 20) now else None.

Lemma route_some st now ip t : route st now ip = Some t ->
  (24 <= length ip)%nat /\ find_user_by_ip st (le32_at ip 20) now = Some t.
Proof.
  unfold route. destruct (24 <=? length ip)%nat eqn:E; [|discriminate]. apply Nat.leb_le in E. tauto.
Qed.

(* a packet queued or started for slot t (tunnel_tun and the client-to-client branch of
   handle_full_packet share this shape) *)
Definition deliver (st : sstate) (t : nat) (data : list N) : sstate * list out :=
  let ut := getu st t in
  match u_conn ut with
  | CONN_DNS =>
      if p_len (u_out ut) =? 0 then send_held (upd st t (fun x => start_new_outpacket x data)) t
      else (upd st t (fun x => fst (save_to_outpacketq x data)), [])
  | CONN_RAW => (st, [ORaw (h_from (u_q ut)) (raw_frame src_RAW_HDR_CMD_DATA t data)])
  end.

Lemma deliver_spec st t data st' outs : (t < length st)%nat -> deliver st t data = (st', outs) ->
  length st' = length st /\ (forall j, j <> t -> getu st' j = getu st j) /\
  sec (getu st' t) = sec (getu st t) /\ Forall (out_for t (getu st t)) outs.
Proof.
  intros Ht. unfold deliver. cbv zeta. destruct (u_conn (getu st t)).
  - intros H; inversion H; subst. repeat split.
    apply Forall_cons; [|apply Forall_nil]. simpl. split; [reflexivity|]. exists data. reflexivity.
  - destruct (p_len (u_out (getu st t)) =? 0).
    + intros H. apply send_held_spec in H. destruct H as (L & Ho & Hs & Ha).
      rewrite upd_length in L. split; [exact L|].
      split; [intros j Hj; rewrite (Ho j Hj); apply getu_upd_other, Hj|].
      rewrite getu_upd_same in Hs, Ha by exact Ht.
      split; [rewrite Hs; apply sec_start|].
      change (u_q (start_new_outpacket (getu st t) data)) with (u_q (getu st t)) in Ha.
      change (u_qs (start_new_outpacket (getu st t) data)) with (u_qs (getu st t)) in Ha.
      revert Ha. apply Forall_imp. intros [] Hx; simpl in *; tauto.
    + intros H; inversion H; subst. split; [apply upd_length|].
      split; [intros j Hj; apply getu_upd_other, Hj|].
      split; [rewrite getu_upd_same by exact Ht; apply sec_saveq|apply Forall_nil].
Qed.

Ltac inv_pair H := inversion H; subst; clear H.

Lemma scod_pair_spec (cnd : bool) u1 w u2 o1 :
  (if cnd then let '(x, o, _) := send_chunk_or_dataless u1 w in (x, o) else (u1, [])) = (u2, o1) ->
  sec u2 = sec u1 /\ Forall is_ans o1.
Proof.
  destruct cnd.
  - destruct (send_chunk_or_dataless u1 w) as [[x o] b] eqn:E. intros H; inv_pair H.
    split; [exact (proj1 (scod_spec _ _ _ _ _ E))|exact (scod_is_ans _ _ _ _ _ E)].
  - intros H; inv_pair H. split; [reflexivity|constructor].
Qed.

Lemma scod_triple_spec (cnd : bool) u1 w u2 o1 (d0 : bool) d :
  (if cnd then let '(x, o, again) := send_chunk_or_dataless u1 w in (x, o, negb again) else (u1, [], d0)) = (u2, o1, d) ->
  sec u2 = sec u1 /\ Forall is_ans o1.
Proof.
  destruct cnd.
  - destruct (send_chunk_or_dataless u1 w) as [[x o] b] eqn:E. intros H; inv_pair H.
    split; [exact (proj1 (scod_spec _ _ _ _ _ E))|exact (scod_is_ans _ _ _ _ _ E)].
  - intros H; inv_pair H. split; [reflexivity|constructor].
Qed.

Lemma Forall_app_intro {A} (P : A -> Prop) l1 l2 : Forall P l1 -> Forall P l2 -> Forall P (l1 ++ l2).
Proof. intros H1 H2. apply Forall_app. split; assumption. Qed.

Section WithOracles.
Variable login : list N -> N -> list N.
Variable zc : list N -> list N.
Variable unz : list N -> option (list N).

(* ---- handle_full_packet ------------------------------------------------------------------- *)

Definition hfp_raw (st : sstate) (i : nat) : list N :=
  firstn (N.to_nat (p_len (u_in (getu st i)))) (p_data (u_in (getu st i))).

Definition clear_in (x : suser) : suser := x <| u_in := (u_in x) <| p_len := 0 |> <| p_offset := 0 |> |>.

Lemma hfp_eq st now i : handle_full_packet unz st now i =
  let raw := hfp_raw st i in
  let '(st1, outs) :=
    match unz raw with
    | None => (st, [])
    | Some ip => match route st now ip with
                 | None => (st, [OTun ip])
                 | Some t => deliver st t raw
                 end
    end in
  (upd st1 i clear_in, outs).
Proof.
  unfold handle_full_packet, hfp_raw, deliver, clear_in, route. cbv zeta.
  destruct (unz _) as [ip|]; [|reflexivity].
  destruct (if (24 <=? length ip)%nat then find_user_by_ip st (le32_at ip 20) now else None) as [t|]; [|reflexivity].
  destruct (u_conn _); [reflexivity|]. destruct (_ =? 0); reflexivity.
Qed.

Lemma hfp_spec st now i st' outs : handle_full_packet unz st now i = (st', outs) ->
  sec_same st st' /\
  match unz (hfp_raw st i) with
  | None => outs = [] /\ forall j, j <> i -> getu st' j = getu st j
  | Some ip =>
      match route st now ip with
      | None => outs = [OTun ip] /\ forall j, j <> i -> getu st' j = getu st j
      | Some t => Forall (out_for t (getu st t)) outs /\
                  forall j, j <> i -> j <> t -> getu st' j = getu st j
      end
  end.
Proof.
  rewrite hfp_eq. cbv zeta.
  assert (Hc : forall st1, sec_same st1 (upd st1 i clear_in)) by (intros st1; apply sec_same_upd; reflexivity).
  destruct (unz (hfp_raw st i)) as [ip|].
  - destruct (route st now ip) as [t|] eqn:Er.
    + destruct (deliver st t (hfp_raw st i)) as [st1 o1] eqn:Ed. intros H; inversion H; subst.
      destruct (route_some _ _ _ _ Er) as [_ Ef]. destruct (fubi_some _ _ _ _ Ef) as (Ht & _).
      destruct (deliver_spec _ _ _ _ _ Ht Ed) as (L & Ho & Hs & Hf).
      split; [eapply sec_same_trans; [eapply sec_same_slots; eassumption|apply Hc]|].
      split; [exact Hf|]. intros j Hi Hj. rewrite getu_upd_other by exact Hi. apply Ho, Hj.
    + intros H; inversion H; subst. split; [apply Hc|]. split; [reflexivity|].
      intros j Hj. apply getu_upd_other, Hj.
  - intros H; inversion H; subst. split; [apply Hc|]. split; [reflexivity|].
    intros j Hj. apply getu_upd_other, Hj.
Qed.

(* ---- handle_ping ---------------------------------------------------------------------------- *)

Lemma handle_ping_spec c st now q unp st' outs : handle_ping c st now q unp = (st', outs) ->
  sec_same st st' /\ Forall is_ans outs /\
  (forall j, j <> Z.to_nat (schar (chr unp 0)) -> getu st' j = getu st j).
Proof.
  cbv beta delta [handle_ping]. name_let.
  assert (R0 : forall o, Forall is_ans [mk_answer q o 84]) by (intros; repeat constructor).
  destruct (check_auth c st now userid (h_from q)).
  { intros H; inv_pair H. split; [apply sec_same_refl|]. split; [apply R0|reflexivity]. }
  name_let. name_let.
  destruct (answer_from_dnscache u (h_name q) (h_type q)).
  { intros H; inv_pair H. split; [apply sec_same_refl|]. split; [repeat constructor|reflexivity]. }
  destruct (qmem_hit _ _ _).
  { intros H; inv_pair H. split; [apply sec_same_refl|]. split; [apply R0|reflexivity]. }
  destruct (dup_pending u q WQ).
  { intros H; inv_pair H. split; [apply sec_same_upd; intros; reflexivity|].
    split; [constructor|]. intros j Hj. apply getu_upd_other, Hj. }
  destruct (dup_pending u q WQS).
  { intros H; inv_pair H. split; [apply sec_same_upd; intros; reflexivity|].
    split; [constructor|]. intros j Hj. apply getu_upd_other, Hj. }
  name_let. name_let. name_let.
  assert (S1 : sec u1 = sec u) by apply sec_pda.
  lazymatch goal with |- context [match ?X with pair _ _ => _ end] => destruct X as [u2 o1] eqn:E2 end.
  apply scod_pair_spec in E2. destruct E2 as [S2 A1].
  lazymatch goal with |- context [match ?X with pair _ _ => _ end] => destruct X as [[u3 o2] ds] eqn:E3 end.
  apply scod_triple_spec in E3. destruct E3 as [S3 A2].
  name_let.
  assert (S4 : sec u4 = sec u3) by reflexivity.
  lazymatch goal with |- context [match ?X with pair _ _ => _ end] => destruct X as [u5 o3] eqn:E5 end.
  apply scod_pair_spec in E5. destruct E5 as [S5 A3].
  intros H; inv_pair H.
  split; [apply sec_same_upd_const; rewrite S5, S4, S3, S2, S1; reflexivity|].
  split; [repeat apply Forall_app_intro; assumption|].
  intros j Hj. apply getu_upd_other, Hj.
Qed.

Lemma handle_ping_refused c st now q unp : check_auth c st now (schar (chr unp 0)) (h_from q) = true ->
  handle_ping c st now q unp = (st, [mk_answer q s_BADIP 84]).
Proof. intros H. cbv beta delta [handle_ping]. name_let. subst userid. rewrite H. reflexivity. Qed.

(* ---- handle_data ------------------------------------------------------------------------------ *)

Lemma handle_data_spec c st now q inb dl st' outs :
  handle_data unz c st now q inb dl = (st', outs) -> sec_same st st'.
Proof.
  cbv beta delta [handle_data]. name_let. name_let. name_let.
  destruct (check_auth c st now userid (h_from q)).
  { intros H; inv_pair H. apply sec_same_refl. }
  name_let. name_let.
  destruct (answer_from_dnscache u (h_name q) (h_type q)).
  { intros H; inv_pair H. apply sec_same_refl. }
  destruct (qmem_hit _ _ _).
  { intros H; inv_pair H. apply sec_same_refl. }
  destruct (dup_pending u q WQ).
  { intros H; inv_pair H. apply sec_same_upd; intros; reflexivity. }
  destruct (dup_pending u q WQS).
  { intros H; inv_pair H. apply sec_same_upd; intros; reflexivity. }
  do 10 name_let.
  assert (S1 : sec u1 = sec u) by apply sec_pda.
  lazymatch goal with |- context [match ?X with pair _ _ => _ end] => destruct X as [u2 upstream_ok] eqn:E2 end.
  assert (S2 : sec u2 = sec u1).
  { revert E2. repeat (match goal with |- context [if ?cnd then _ else _] => destruct cnd end);
      intros E2; inv_pair E2; reflexivity. }
  clear E2.
  name_let.
  assert (S3 : sec u3 = sec u2) by (subst u3; destruct upstream_ok; reflexivity).
  name_let.
  assert (SS1 : sec_same st st1).
  { subst st1. apply sec_same_upd_const. rewrite S3, S2, S1. reflexivity. }
  lazymatch goal with |- context [match ?X with pair _ _ => _ end] => destruct X as [st2 o0] eqn:E0 end.
  assert (SS2 : sec_same st st2).
  { destruct (upstream_ok && lastfrag).
    - apply hfp_spec in E0. destruct E0 as [E0 _]. eapply sec_same_trans; eassumption.
    - inv_pair E0. exact SS1. }
  clear E0.
  name_let.
  lazymatch goal with |- context [match ?X with pair _ _ => _ end] => destruct X as [[u5 o1] didsend1] eqn:E5 end.
  apply scod_triple_spec in E5. destruct E5 as [S5 _].
  lazymatch goal with |- context [match ?X with pair _ _ => _ end] => destruct X as [[u6 o2] didsend2] eqn:E6 end.
  assert (S6 : sec u6 = sec u5).
  { revert E6. destruct (negb (h_id (u_q u5) =? 0)).
    - match goal with |- context [if ?cnd then _ else _] => destruct cnd end.
      + destruct (send_chunk_or_dataless u5 WQ) as [[x o] b] eqn:E. intros H; inv_pair H.
        exact (proj1 (scod_spec _ _ _ _ _ E)).
      + intros H; inv_pair H. reflexivity.
    - intros H; inv_pair H. reflexivity. }
  clear E6.
  name_let.
  assert (S7 : sec u7 = sec u6) by reflexivity.
  lazymatch goal with |- context [match ?X with pair _ _ => _ end] => destruct X as [u8 o3] eqn:E8 end.
  assert (S8 : sec u8 = sec u7).
  { revert E8. repeat (match goal with |- context [if ?cnd then _ else _] => destruct cnd end);
      try (intros H; inv_pair H; reflexivity);
      destruct (send_chunk_or_dataless u7 WQ) as [[x o] b] eqn:E; intros H; inv_pair H;
      exact (proj1 (scod_spec _ _ _ _ _ E)). }
  clear E8.
  intros H; inv_pair H.
  eapply sec_same_trans; [exact SS2|]. apply sec_same_upd_const.
  rewrite S8, S7, S6, S5. reflexivity.
Qed.

Lemma handle_data_refused c st now q inb dl :
  check_auth c st now (Z.of_N (let c0 := chr inb 0 in
      if (48 <=? c0) && (c0 <=? 57) then c0 - 48
      else if (97 <=? c0) && (c0 <=? 102) then c0 - 87 else c0 - 55)) (h_from q) = true ->
  handle_data unz c st now q inb dl = (st, [mk_answer q s_BADIP 84]).
Proof.
  intros H. cbv beta delta [handle_data]. cbv zeta in H. name_let. name_let. name_let.
  subst userid code c0. rewrite H. reflexivity.
Qed.

(* ---- tunnel_tun --------------------------------------------------------------------------------- *)

Lemma tunnel_tun_eq st now pkt : tunnel_tun zc st now pkt =
  match pkt with
  | [] => (st, [])
  | _ => match route st now pkt with
         | None => (st, [])
         | Some t => deliver st t (zc pkt)
         end
  end.
Proof.
  unfold tunnel_tun, deliver, route. destruct pkt as [|b pkt]; [reflexivity|].
  rewrite Nat.ltb_antisym. destruct (24 <=? length (b :: pkt))%nat; [|reflexivity]. cbv [negb].
  destruct (find_user_by_ip _ _ _) as [t|]; [|reflexivity]. cbv zeta.
  destruct (u_conn _); [reflexivity|].
  destruct (p_len (u_out (getu st t))); reflexivity.
Qed.

Lemma tunnel_tun_spec st now pkt st' outs : tunnel_tun zc st now pkt = (st', outs) ->
  match pkt with
  | [] => st' = st /\ outs = []
  | _ =>
    match route st now pkt with
    | None => st' = st /\ outs = []
    | Some t => length st' = length st /\ (forall j, j <> t -> getu st' j = getu st j) /\
                sec (getu st' t) = sec (getu st t) /\ Forall (out_for t (getu st t)) outs
    end
  end.
Proof.
  rewrite tunnel_tun_eq. destruct pkt as [|b pkt]; [intros H; inv_pair H; split; reflexivity|].
  destruct (route st now (b :: pkt)) as [t|] eqn:Er;
    [|intros H; inv_pair H; split; reflexivity].
  intros H. destruct (route_some _ _ _ _ Er) as [_ Ef]. destruct (fubi_some _ _ _ _ Ef) as (Ht & _). exact (deliver_spec _ _ _ _ _ Ht H).
Qed.

Lemma tunnel_tun_sec st now pkt st' outs : tunnel_tun zc st now pkt = (st', outs) ->
  sec_same st st' /\ Forall (fun o => match o with OAnswer _ _ _ _ _ | ORaw _ _ => True | _ => False end) outs.
Proof.
  intros H. apply tunnel_tun_spec in H. destruct pkt as [|b pkt].
  - destruct H as [-> ->]. split; [apply sec_same_refl|constructor].
  - destruct (route st now (b :: pkt)) as [t|].
    + destruct H as (L & Ho & Hs & Hf). split; [eapply sec_same_slots; eassumption|].
      revert Hf. apply Forall_imp. intros [] Hx; simpl in Hx |- *; first [exact I | contradiction].
    + destruct H as [-> ->]. split; [apply sec_same_refl|constructor].
Qed.

(* ---- sweeps ----------------------------------------------------------------------------------------- *)

Lemma sweep_clear_getu st now j :
  getu (sweep_clear st now) j =
  (fun u => if u_active u && negb (u_disabled u) && live now u then u <| u_qs_new := false |> else u) (getu st j).
Proof.
  unfold sweep_clear, getu.
  set (f := fun u : suser => if u_active u && negb (u_disabled u) && live now u then u <| u_qs_new := false |> else u).
  change (user_init 0) with (f (user_init 0)) at 1. apply map_nth.
Qed.

Lemma sweep_clear_sec st now : sec_same st (sweep_clear st now).
Proof.
  split; [unfold sweep_clear; apply map_length|]. intros j. rewrite sweep_clear_getu. cbv beta.
  destruct (_ && _); reflexivity.
Qed.

Lemma sweep_send_spec n : forall i st now acc st' outs,
  sweep_send n i st now acc = (st', outs) ->
  sec_same st st' /\ exists o, outs = acc ++ o /\ Forall is_ans o.
Proof.
  induction n as [|n IH]; intros i st now acc st' outs; simpl.
  - intros H; inv_pair H. split; [apply sec_same_refl|]. exists []. rewrite app_nil_r. split; [reflexivity|constructor].
  - match goal with |- context [if ?cnd then _ else _] => destruct cnd end.
    + destruct (send_chunk_or_dataless (getu st i) WQS) as [[u' o] b] eqn:E. intros H.
      apply IH in H. destruct H as [SS (o2 & -> & Ho2)].
      destruct (scod_spec _ _ _ _ _ E) as [Hs _]. pose proof (scod_is_ans _ _ _ _ _ E) as Ha.
      split; [eapply sec_same_trans; [apply sec_same_upd_const, Hs|exact SS]|].
      exists (o ++ o2). rewrite app_assoc. split; [reflexivity|apply Forall_app_intro; assumption].
    + apply IH.
Qed.

End WithOracles.
