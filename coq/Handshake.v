(* Handshake.v -- executable model of the retry / time-out sequencing of the client's handshake
   (src/client.c: handshake_waitdns and the handshake_* functions built on it), driven by a script of
   events: a select() time-out, or a datagram on the DNS socket.  Model only; the evaluation of a single
   fitting reply is shared with Negotiate.v (upenctest_eval, downenctest_eval, fragsize_check) and
   LoginGlue.v (cli_version).

   The model follows the repaired code (a short reply is terminated before it is compared: every
   comparison below looks at the bytes of the reply only).  Queries are not rebuilt here (their names are
   C08's subject); the model tracks what the sequencing depends on: the DNS id of the latest query
   (chunkid), the command letter it carried, and the number of queries sent.

   handshake_login uses the reply parser and the command builder of Shell.v (C13); handshake_raw_udp asks for
   the server address over DNS and then takes whatever datagram arrives next as the answer to each of its four
   raw logins (it has no notion of an unfitting reply), accepting only login(seed - 1) (LoginGlue.v / Login.v). *)
From Coq Require Import List NArith ZArith Arith Bool.
From RecordUpdate Require Import RecordUpdate.
From Iodine Require Import Generated.SrcConsts Base DnsName DnsMsg Negotiate Login LoginGlue Shell.
Import ListNotations.
Local Open Scope N_scope.

(* ---- events ------------------------------------------------------------------------------------- *)

(* mode 0: the datagram as it is; 1: bytes 0-1 replaced by the id of the latest query; 2: in addition
   the first character of the question name replaced by that of the latest query (harness/h_hsfuzz.c) *)
Inductive item := IT | ID (mode : N) (d : list N).

Definition subst (mode cid lastc : N) (d : list N) : list N :=
  let d1 := if (1 <=? mode) && (2 <=? length d)%nat then [cid / 256; cid mod 256] ++ skipn 2 d else d in
  if (mode =? 2) && (14 <=? length d1)%nat && (1 <=? nth 12 d1 0) && (nth 12 d1 0 <? 64)
  then firstn 13 d1 ++ [lastc] ++ skipn 14 d1 else d1.

(* ---- state ---------------------------------------------------------------------------------------- *)

Record hs := mkhs {
  h_cid : N;          (* chunkid *)
  h_lastc : N;        (* first character of the name of the latest query *)
  h_q : N;            (* queries sent *)
  h_qtype : N;        (* do_qtype *)
  h_uid : Z;          (* userid (a C char) *)
  h_seed : Z;         (* *seed of handshake_version *)
  h_up : N;           (* dataenc: 0 Base32, 1 Base64, 2 Base64u, 3 Base128 *)
  h_lazy : bool; h_st : N;  (* lazymode, selecttimeout *)
  h_down : N;         (* downenc (a character; 32 = not chosen) *)
  h_edns : bool;      (* dnsc_use_edns0 *)
  h_ifname : list N;  (* if_name of tun.c *)
  h_sys : list (list N);  (* arguments of system(), in order *)
  h_pass : list N;    (* the password buffer (32 bytes) *)
  h_dns : bool        (* conn == CONN_DNS_NULL *)
}.
#[export] Instance eta_hs : Settable _ := settable! mkhs <h_cid; h_lastc; h_q; h_qtype; h_uid; h_seed; h_up; h_lazy; h_st;
  h_down; h_edns; h_ifname; h_sys; h_pass; h_dns>.

Definition next_chunkid (id : N) : N :=
  let v := (id + 7727) mod 65536 in if v =? 0 then 7727 else v.

(* send_query: new id, one datagram out *)
Definition send (c : N) (s : hs) : hs :=
  s <| h_cid := next_chunkid (h_cid s) |> <| h_lastc := c |> <| h_q := h_q s + 1 |>.

(* ---- a small state-and-script monad ----------------------------------------------------------------- *)

Definition M (A : Type) : Type := hs -> list item -> A * hs * list item.
Definition ret {A} (a : A) : M A := fun s l => (a, s, l).
Definition bind {A B} (m : M A) (f : A -> M B) : M B :=
  fun s l => let '(a, s1, l1) := m s l in f a s1 l1.
Definition modify (f : hs -> hs) : M unit := fun s l => (tt, f s, l).
Definition get : M hs := fun s l => (s, s, l).
Notation "x <- m ;; k" := (bind m (fun x => k)) (at level 61, m at next level, right associativity).
Notation "m ;;; k" := (bind m (fun _ => k)) (at level 61, right associativity).

(* for (i = 0; i < n; i++) body: Some = return, None = next iteration; dflt after the loop *)
Fixpoint attempts {A} (n : nat) (body : M (option A)) (dflt : M A) : M A :=
  match n with
  | O => dflt
  | S k => r <- body ;; match r with Some a => ret a | None => attempts k body dflt end
  end.

(* ---- handshake_waitdns ------------------------------------------------------------------------------- *)

Inductive wres :=
| WTimeout               (* -3 *)
| WErr                   (* -2: a fitting reply that is a DNS error / carries no answer *)
| WRead (buf : list N).  (* >= 0: the bytes of the reply *)

(* does the datagram fit the latest query?  (q.id == chunkid and q.name[0] is c1 or c2) *)
Definition fits (cid c1 c2 : N) (x : da_result) : bool :=
  let qid := match da_id x with Some i => i | None => 0 end in
  let n0 := match da_name0 x with Some c => c | None => 0 end in
  (qid =? cid) && ((n0 =? c1) || (n0 =? c2)).

Fixpoint waitdns_go (cid lastc c1 c2 : N) (buflen : nat) (l : list item) : wres * list item :=
  match l with
  | [] => (WTimeout, [])
  | IT :: r => (WTimeout, r)
  | ID mode d :: r =>
      let d' := subst mode cid lastc d in
      let x := client_extract buflen d' (length d') in
      if negb (fits cid c1 c2 x) then waitdns_go cid lastc c1 c2 buflen r
      else if (da_rv x <? 0)%Z then (WErr, r)
      else (WRead (firstn (Z.to_nat (da_rv x)) (da_out x)), r)
  end.

Definition waitdns (c1 c2 : N) (buflen : nat) : M wres :=
  fun s l => let '(w, r) := waitdns_go (h_cid s) (h_lastc s) c1 c2 buflen l in (w, s, r).

(* send a query with command letter c, wait for the reply *)
Definition ask (c c2 : N) (buflen : nat) : M wres :=
  modify (send c) ;;; waitdns c c2 buflen.

Definition cap_full : nat := N.to_nat 4096.   (* sizeof(in) *)
Definition cap_term : nat := N.to_nat 4095.   (* sizeof(in) - 1: room for the terminator *)

Definition has_prefix (lit buf : list N) : bool := Negotiate.list_eqb (firstn (length lit) buf) lit.
Definition s_VNAK : list N := [86; 78; 65; 75].
Definition s_VFUL : list N := [86; 70; 85; 76].
Definition s_BADLEN : list N := [66; 65; 68; 76; 69; 78].
Definition s_BADFRAG : list N := [66; 65; 68; 70; 82; 65; 71].
Definition s_Lazy : list N := [76; 97; 122; 121].
Definition s_Immediate : list N := [73; 109; 109; 101; 100; 105; 97; 116; 101].
Definition s_LNAK : list N := [76; 78; 65; 75].
Definition is_lnak_or_badip (buf : list N) : bool := has_prefix s_LNAK (cstr buf) || has_prefix s_BADIP (cstr buf).
Definition is_bad3 (buf : list N) : bool := has_prefix s_BADLEN buf || has_prefix s_BADIP buf || has_prefix s_BADCODEC buf.

(* ---- the steps ------------------------------------------------------------------------------------------ *)

(* handshake_version: 0 ok (seed and userid stored), 1 give up *)
Definition version_body : M (option Z) :=
  r <- ask 118 86 cap_full ;;
  match r with
  | WRead buf =>
      if (9 <=? length buf)%nat then
        match cli_version buf with
        | Some (seed, uid) => modify (fun s => s <| h_seed := seed |> <| h_uid := uid |>) ;;; ret (Some 0%Z)
        | None => if has_prefix s_VNAK buf || has_prefix s_VFUL buf then ret (Some 1%Z) else ret None
        end
      else ret None
  | _ => ret None
  end.
Definition hs_version : M Z := attempts 5 version_body (ret 1%Z).

(* handshake_upenctest(s) *)
Definition upenctest_body (pat : list N) : M (option upres) :=
  r <- ask 122 90 cap_full ;;
  match r with
  | WErr => ret (Some UpFail)
  | WRead buf => if (0 <? length buf)%nat then ret (Some (upenctest_eval pat (Some buf))) else ret None
  | WTimeout => ret None
  end.
Definition hs_upenctest (pat : list N) : M upres := attempts 3 (upenctest_body pat) (ret UpFail).

(* handshake_upenc_autodetect *)
Fixpoint hs_upenc_chain (ps : list (list N)) : M (option N) :=
  match ps with
  | [] => ret (Some src_UPENC_CHAIN_RET)
  | p :: t => r <- hs_upenctest p ;;
              match r with UpSwap => ret (Some 0) | UpFail => ret None | UpPass => hs_upenc_chain t end
  end.
Fixpoint hs_upenc_alts (ps : list (list N)) (rets : list N) : M N :=
  match ps, rets with
  | p :: t, r :: rt => x <- hs_upenctest p ;;
                       match x with UpSwap => ret 0 | UpPass => ret r | UpFail => hs_upenc_alts t rt end
  | _, _ => ret 0
  end.
Definition hs_upenc_auto : M N :=
  c <- hs_upenc_chain src_upenc_chain ;;
  match c with Some r => ret r | None => hs_upenc_alts src_upenc_alt src_upenc_alt_ret end.

(* handshake_downenctest / handshake_edns0_check: the same loop *)
Definition downenctest_body : M (option bool) :=
  r <- ask 121 89 cap_full ;;
  match r with
  | WErr => ret (Some false)
  | WRead buf => if (0 <? length buf)%nat then ret (Some (downenctest_eval (Some buf))) else ret None
  | WTimeout => ret None
  end.
Definition hs_downenctest : M bool := attempts 3 downenctest_body (ret false).

(* handshake_downenc_autodetect: the codec letter, or 32 *)
Definition hs_downenc_auto : M N :=
  s <- get ;;
  let ty := h_qtype s in
  if (ty =? T_NULL) || (ty =? T_PRIVATE) then ret 32 else
  b64 <- hs_downenctest ;;
  b64u <- (if b64 then ret false else hs_downenctest) ;;
  b128 <- (if b64 || b64u then hs_downenctest else ret false) ;;
  raw <- (if b128 && (ty =? T_TXT) then hs_downenctest else ret false) ;;
  ret (if raw then 82 else if b128 then 86 else if b64 then 83 else if b64u then 85 else 32).

(* handshake_qtypetest: one query, no retry *)
Definition hs_qtypetest : M bool :=
  r <- ask 121 89 cap_full ;;
  match r with WRead buf => ret (downenctest_eval (Some buf)) | _ => ret false end.

Definition numcvt (n : nat) : N := nth n src_qtype_order T_UNSET.

(* inner for loop of handshake_qtype_autodetect *)
Fixpoint hs_qtype_round (fuel q highest : nat) : M nat :=
  match fuel with
  | O => ret highest
  | S f =>
      if (q <? highest)%nat then
        if numcvt q =? T_UNSET then modify (fun s => s <| h_qtype := T_UNSET |>) ;;; ret highest else
        modify (fun s => s <| h_qtype := numcvt q |>) ;;;
        ok <- hs_qtypetest ;;
        if ok then ret q else hs_qtype_round f (S q) highest
      else ret highest
  end.
Fixpoint hs_qtype_rounds (rounds highest : nat) : M nat :=
  match rounds with
  | O => ret highest
  | S k => h <- hs_qtype_round (S (S ntypes)) 0 highest ;;
           if (h =? 0)%nat then ret h else hs_qtype_rounds k h
  end.
(* 0: do_qtype set; 1: no suitable type *)
Definition hs_qtype_auto : M Z :=
  h <- hs_qtype_rounds (N.to_nat src_QTYPE_TIMEOUT_MAX) 100 ;;
  modify (fun s => s <| h_qtype := numcvt h |>) ;;;
  ret (if numcvt h =? T_UNSET then 1%Z else 0%Z).

(* handshake_switch_codec(bits) *)
Definition switch_codec_body (codec : N) : M (option unit) :=
  r <- ask 115 83 cap_term ;;
  match r with
  | WRead buf =>
      if (0 <? length buf)%nat then
        if is_bad3 buf then ret (Some tt)
        else modify (fun s => s <| h_up := codec |>) ;;; ret (Some tt)
      else ret None
  | _ => ret None
  end.
Definition hs_switch_codec (bits : N) : M unit :=
  match assoc bits src_client_bits src_client_bits_codec with
  | None => ret tt
  | Some codec => attempts 5 (switch_codec_body codec) (ret tt)
  end.

(* handshake_switch_downenc: any reply ends it; nothing is stored *)
Definition any_reply_body (c c2 : N) : M (option unit) :=
  r <- ask c c2 cap_term ;;
  match r with
  | WRead buf => if (0 <? length buf)%nat then ret (Some tt) else ret None
  | _ => ret None
  end.
Definition hs_switch_downenc : M unit := attempts 5 (any_reply_body 111 79) (ret tt).
(* handshake_set_fragsize *)
Definition hs_set_fragsize : M unit := attempts 5 (any_reply_body 110 78) (ret tt).

(* handshake_try_lazy *)
Definition lazy_revert : M unit := modify (fun s => s <| h_lazy := false |> <| h_st := 1 |>).
Definition try_lazy_body : M (option unit) :=
  r <- ask 111 79 cap_term ;;
  match r with
  | WRead buf =>
      if (0 <? length buf)%nat then
        if is_bad3 buf then lazy_revert ;;; ret (Some tt)
        else if has_prefix s_Lazy buf then modify (fun s => s <| h_lazy := true |>) ;;; ret (Some tt)
        else ret None
      else ret None
  | _ => ret None
  end.
Definition hs_try_lazy : M unit := attempts 5 try_lazy_body lazy_revert.

(* handshake_lazyoff *)
Definition lazyoff_body : M (option unit) :=
  r <- ask 111 79 cap_full ;;
  match r with
  | WRead buf =>
      if (length buf =? 9)%nat && has_prefix s_Immediate buf then lazy_revert ;;; ret (Some tt) else ret None
  | _ => ret None
  end.
Definition hs_lazyoff : M unit := attempts 5 lazyoff_body (ret tt).

(* handshake_autoprobe_fragsize *)
Definition probe_body (proposed : N) : M (option probe_res) :=
  r <- ask 114 82 cap_term ;;
  match r with
  | WRead buf =>
      if (0 <? length buf)%nat then
        match fragsize_check buf proposed with
        | PNoAnswer => ret None
        | x => ret (Some x)
        end
      else ret None
  | _ => ret None
  end.
Definition hs_probe (proposed : N) : M probe_res := attempts 3 (probe_body proposed) (ret PNoAnswer).

Fixpoint hs_autoprobe_loop (fuel : nat) (proposed range : N) (maxf : Z) : M Z :=
  match fuel with
  | O => ret maxf
  | S f =>
      if (0 <? range) && ((src_PROBE_RANGE_MIN <=? range) || (maxf <? Z.of_N src_PROBE_ENOUGH)%Z) then
        p <- hs_probe proposed ;;
        let maxf' := match p with POk => Z.of_N proposed | PCorrupt => (-1)%Z | _ => maxf end in
        if (maxf' <? 0)%Z then ret maxf'
        else
          let range' := N.shiftr range src_PROBE_SHIFT in
          let up := if (maxf' =? Z.of_N proposed)%Z then src_PROBE_OK_UP else src_PROBE_FAIL_UP in
          let proposed' := if up =? 1 then proposed + range' else proposed - range' in
          hs_autoprobe_loop f proposed' range' maxf'
      else ret maxf
  end.
Definition hs_autoprobe : M N :=
  m <- hs_autoprobe_loop 16 src_PROBE_START src_PROBE_RANGE 0 ;;
  ret (if (m <=? Z.of_N src_PROBE_MIN_OK)%Z then 0 else Z.to_N m - src_PROBE_HDR).

(* handshake_login: Some 0 logged in (tunnel configured), Some 1 refused / gave up, None: errx(4, "Failed to set IP and MTU").
   Every system() call succeeds (as in the harness); the commands are those of Shell.v *)
Definition login_body : M (option (option Z)) :=
  r <- ask 108 76 cap_term ;;
  match r with
  | WRead buf =>
      if (0 <? length buf)%nat then
        s <- get ;;
        let '(cmds, more) := login_step mask_x86 (h_ifname s) true buf in
        modify (fun s => s <| h_sys := h_sys s ++ cmds |>) ;;;
        if more then ret None
        else match cmds with
             | [_; _] => ret (Some (Some 0%Z))
             | [] => if is_lnak_or_badip buf then ret (Some (Some 1%Z)) else ret (Some None)
             | _ => ret (Some None)
             end
      else ret None
  | _ => ret None
  end.
Definition hs_login : M (option Z) := attempts 5 login_body (ret (Some 1%Z)).

(* handshake_raw_udp(seed): 1 = the server answered the raw login, 0 = stay in DNS mode.
   First the 'i' query for the server's address (3 attempts); then up to 4 raw logins, each followed by ONE
   select(): a time-out, or any datagram, which is the answer or is not. *)
Definition rawip_body : M (option bool) :=
  r <- ask 105 73 cap_full ;;
  match r with
  | WRead buf =>
      if ((length buf =? 5)%nat || (length buf =? 17)%nat) && (nth 0 buf 0 =? 73) then ret (Some true) else ret None
  | _ => ret None
  end.

(* send_raw_udp_login: a datagram to the raw address (no DNS id is consumed) *)
Definition send_raw : M unit := modify (fun s => s <| h_q := h_q s + 1 |>).

Definition raw_wait : M (option (list N)) :=
  fun s l => match l with
             | [] => (None, s, [])
             | IT :: r => (None, s, r)
             | ID m d :: r => (Some (firstn cap_full (subst m (h_cid s) (h_lastc s) d)), s, r)
             end.

Definition raw_login_ok (pass : list N) (seed : Z) (d : list N) : bool :=
  (20 <=? length d)%nat && Negotiate.list_eqb (firstn 3 d) (firstn 3 src_raw_header) &&
  (N.land (nth 3 d 0) src_RAW_HDR_CMD_MASK =? src_RAW_HDR_CMD_LOGIN) && cli_raw_accepts pass seed (skipn 4 d).

Definition rawlogin_body (seed : Z) : M (option bool) :=
  send_raw ;;;
  d <- raw_wait ;;
  s <- get ;;
  match d with
  | Some dg => if raw_login_ok (h_pass s) seed dg then ret (Some true) else ret None
  | None => ret None
  end.

Definition hs_raw_udp (seed : Z) : M bool :=
  got <- attempts 3 rawip_body (ret false) ;;
  if got then attempts 4 (rawlogin_body seed) (ret false) else ret false.

(* client_handshake(dns_fd, raw_mode, autodetect_frag_size, fragsize): Some rv, or None for errx *)
Definition hs_full (rawmode autofrag : bool) (fragsize : N) : M (option Z) :=
  modify (fun s => s <| h_edns := false |>) ;;;
  s <- get ;;
  r0 <- (if h_qtype s =? T_UNSET then hs_qtype_auto else ret 0%Z) ;;
  if negb (r0 =? 0)%Z then ret (Some r0) else
  r1 <- hs_version ;;
  if negb (r1 =? 0)%Z then ret (Some r1) else
  r2 <- hs_login ;;
  match r2 with
  | None => ret None
  | Some 0%Z =>
      sv <- get ;;
      raw <- (if rawmode then hs_raw_udp (h_seed sv) else ret false) ;;
      if raw then modify (fun s => s <| h_dns := false |> <| h_st := 20 |>) ;;; ret (Some 0%Z) else
      modify (fun s => s <| h_edns := true |>) ;;;
      e <- hs_downenctest ;;
      modify (fun s => s <| h_edns := e |>) ;;;
      up <- hs_upenc_auto ;;
      (match assoc up src_upcodec_res src_upcodec_bits with
       | Some bits => hs_switch_codec bits
       | None => ret tt
       end) ;;;
      s1 <- get ;;
      (if h_down s1 =? 32 then d <- hs_downenc_auto ;; modify (fun s => s <| h_down := d |>) else ret tt) ;;;
      s2 <- get ;;
      (if h_down s2 =? 32 then ret tt else hs_switch_downenc) ;;;
      (if h_lazy s2 then hs_try_lazy else ret tt) ;;;
      fs <- (if autofrag then hs_autoprobe else ret fragsize) ;;
      if fs =? 0 then ret (Some 1%Z) else
      hs_set_fragsize ;;; ret (Some 0%Z)
  | Some r => ret (Some r)
  end.

(* ---- one scripted step, as harness/h_hsfuzz.c runs it ---------------------------------------------------- *)

Inductive stepname :=
| SVersion | SEdns0 | SUpenctest (pat : list N) | SUpencAuto | SDownenctest | SDownencAuto | SQtypetest | SQtypeAuto
| SSwitchCodec (bits : N) | SSwitchDownenc | STryLazy | SLazyoff | SAutoprobe | SSetFragsize
| SLogin | SFull (rawmode autofrag : bool) (fragsize : N) | SRawUdp (seed : Z).

Definition upres_rv (u : upres) : Z := match u with UpSwap => (-1)%Z | UpFail => 0%Z | UpPass => 1%Z end.
Definition bool_rv (b : bool) : Z := if b then 1%Z else 0%Z.

(* the int the harness prints as rv (0 for the void functions); None: the client ended in errx() *)
Definition run_step (st : stepname) : M (option Z) :=
  match st with
  | SVersion => r <- hs_version ;; ret (Some r)
  | SEdns0 => b <- hs_downenctest ;; ret (Some (bool_rv b))
  | SUpenctest pat => u <- hs_upenctest pat ;; ret (Some (upres_rv u))
  | SUpencAuto => n <- hs_upenc_auto ;; ret (Some (Z.of_N n))
  | SDownenctest => b <- hs_downenctest ;; ret (Some (bool_rv b))
  | SDownencAuto => n <- hs_downenc_auto ;; ret (Some (Z.of_N n))
  | SQtypetest => b <- hs_qtypetest ;; ret (Some (bool_rv b))
  | SQtypeAuto => r <- hs_qtype_auto ;; ret (Some r)
  | SSwitchCodec bits => hs_switch_codec bits ;;; ret (Some 0%Z)
  | SSwitchDownenc => hs_switch_downenc ;;; ret (Some 0%Z)
  | STryLazy => hs_try_lazy ;;; ret (Some 0%Z)
  | SLazyoff => hs_lazyoff ;;; ret (Some 0%Z)
  | SAutoprobe => n <- hs_autoprobe ;; ret (Some (Z.of_N n))
  | SSetFragsize => hs_set_fragsize ;;; ret (Some 0%Z)
  | SLogin => hs_login
  | SFull rawmode autofrag fragsize => hs_full rawmode autofrag fragsize
  | SRawUdp seed => b <- hs_raw_udp seed ;; ret (Some (bool_rv b))
  end.

Definition hs_init (cid qtype : N) (uid seed : Z) (lazy : bool) (down : N) (ifname pass : list N) : hs :=
  {| h_cid := cid; h_lastc := 0; h_q := 0; h_qtype := qtype; h_uid := uid; h_seed := seed; h_up := 0;
     h_lazy := lazy; h_st := 4; h_down := down; h_edns := false; h_ifname := ifname; h_sys := []; h_pass := pass; h_dns := true |}.
