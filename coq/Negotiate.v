(* Negotiate.v -- the DECISION LOGIC of the client's handshake (src/client.c: handshake_upenctest,
   handshake_upenc_autodetect, handshake_downenctest, handshake_downenc_autodetect,
   handshake_qtypetest, handshake_qtype_autodetect, handshake_edns0_check, fragsize_check,
   handshake_autoprobe_fragsize, client_handshake) as pure functions of test outcomes, and the
   test outcomes themselves as functions of the relay (Relay.v): what the server's 'Z' echo,
   'Y' downstream-codec check and 'R' fragment-size probe (src/iodined.c handle_null_request)
   return through a given relay.  Model only; proofs are in NegotiateProofs.v.

   NOT modelled (validated only by the correspondence / system runs of checks/c11.py): the
   retry loops and time-outs around every test (handshake_waitdns, 3 or 5 attempts with growing
   time-outs), late/duplicate replies, the lazy-mode and raw-UDP sub-handshakes.  A test whose
   datagram is rejected or whose answer is dropped is a test without usable reply (None). *)
From Coq Require Import List NArith ZArith Arith Bool.
From Iodine Require Import Generated.SrcConsts Base Codec Hostname DnsName DnsMsg Relay.
Import ListNotations.
Local Open Scope N_scope.

Fixpoint list_eqb (a b : list N) : bool :=
  match a, b with
  | [], [] => true
  | x :: a', y :: b' => (x =? y) && list_eqb a' b'
  | _, _ => false
  end.

Definition memb (c : N) (l : list N) : bool := existsb (N.eqb c) l.

Fixpoint assoc (k : N) (ks vs : list N) : option N :=
  match ks, vs with
  | k' :: ks', v :: vs' => if k =? k' then Some v else assoc k ks' vs'
  | _, _ => None
  end.

(* codec numbering used throughout: 0 Base32, 1 Base64, 2 Base64u, 3 Base128 *)
Definition codec_by_id (i : N) : codec := if i =? 0 then b32 else if i =? 1 then b64 else if i =? 2 then b64u else b128.

(* ==== upstream codec ================================================================= *)

Inductive upres := UpSwap | UpFail | UpPass.      (* handshake_upenctest returns -1, 0, 1 *)

(* what handshake_upenctest makes of the reply to its test string s; reply = None: no usable
   reply in any of the attempts (time-out or DNS error) *)
Definition upenctest_eval (s : list N) (reply : option (list N)) : upres :=
  match reply with
  | None => UpFail
  | Some inb =>
      if (length inb <? length s + 4)%nat then UpFail              (* chars dropped *)
      else if nth 4 inb 0 =? 65 then UpSwap                         (* in[4] == 'A' *)
      else if nth 5 inb 0 =? 97 then UpSwap                         (* in[5] == 'a' *)
      else if list_eqb (firstn (length s) (skipn 4 inb)) s then UpPass else UpFail
  end.

(* the while(1) chain of Base128 tests: Some r = "return r", None = "break" *)
Fixpoint upenc_chain (test : list N -> upres) (ps : list (list N)) : option N :=
  match ps with
  | [] => Some src_UPENC_CHAIN_RET
  | p :: t => match test p with
              | UpSwap => Some 0
              | UpFail => None
              | UpPass => upenc_chain test t
              end
  end.

(* the tests after the chain: res < 0 -> return 0; res > 0 -> return r; else next *)
Fixpoint upenc_alts (test : list N -> upres) (ps : list (list N)) (rets : list N) : N :=
  match ps, rets with
  | p :: t, r :: rt => match test p with
                       | UpSwap => 0
                       | UpPass => r
                       | UpFail => upenc_alts test t rt
                       end
  | _, _ => 0
  end.

(* handshake_upenc_autodetect: 0 keep Base32, 1 Base64, 2 Base64u, 3 Base128 *)
Definition upenc_autodetect (test : list N -> upres) : N :=
  match upenc_chain test src_upenc_chain with
  | Some r => r
  | None => upenc_alts test src_upenc_alt src_upenc_alt_ret
  end.

(* client_handshake's switch + handshake_switch_codec + the server's 'S' handler:
   (codec the client encodes with, codec the server decodes with) after the autodetect result *)
Definition up_switch (res : N) : N * N :=
  match assoc res src_upcodec_res src_upcodec_bits with
  | None => (0, 0)                                   (* no switch requested *)
  | Some bits =>
      match assoc bits src_client_bits src_client_bits_codec with
      | None => (0, 0)                               (* handshake_switch_codec: "else return" *)
      | Some cid =>
          match assoc bits src_server_bits src_server_bits_codec with
          | None => (0, 0)                           (* BADCODEC: client keeps Base32 *)
          | Some sid => (cid, sid)
          end
      end
  end.

(* ==== what comes back through the relay ================================================ *)

Definition is_binary_type (ty : N) : bool := (ty =? T_NULL) || (ty =? T_PRIVATE).

(* downstream codec letter -> text codec ('S' Base64, 'U' Base64u, 'V' Base128, else Base32) *)
Definition text_codec (l : N) : codec :=
  if l =? 83 then b64 else if l =? 85 then b64u else if l =? 86 then b128 else b32.

(* down_deliver x o ty l p: the payload the client extracts from the server's answer carrying p
   with downstream codec letter l in a record of type ty, after the relay transformed the
   answer with x.  NULL/PRIVATE RDATA is binary and untouched; TXT with 'R' carries p itself as
   text; everything else carries the codec text (in TXT strings or host-name labels). *)
Definition down_deliver (x : xf) (o : nat -> bool) (ty l : N) (p : list N) : option (list N) :=
  if is_binary_type ty then Some p
  else if (ty =? T_TXT) && (l =? 82) then rmap x o p
  else let c := text_codec l in
       match rmap x o (fst (encode c (enclen (cbits c) (length p)) p)) with
       | None => None
       | Some t => Some (decode c (length p) t)
       end.

(* bounce: reply to the 'Z' test for string s.  Up: the relay transforms the query name; the
   server echoes the data part of the name it received -- the 4 header characters "z"+CMC (as
   received: hdr), the test string, the dot before the tunnel domain -- with downstream codec
   'T' (Base32 text, or binary for NULL/PRIVATE); down: the answer transformer. *)
Definition bounce (r : relay) (oq oa : nat -> bool) (ty : N) (hdr s : list N) : option (list N) :=
  match rmap (r_q r) oq s with
  | None => None                                     (* query datagram rejected *)
  | Some s' => down_deliver (r_a r) oa ty 84 (hdr ++ s' ++ [46])
  end.

Definition up_test (r : relay) (oq oa : nat -> bool) (ty : N) (hdr s : list N) : upres :=
  upenctest_eval s (bounce r oq oa ty hdr s).

Definition up_select (r : relay) (oq oa : nat -> bool) (ty : N) (hdr : list N) : N :=
  upenc_autodetect (up_test r oq oa ty hdr).

(* ==== downstream codec ================================================================= *)

Definition s_BADCODEC : list N := [66; 65; 68; 67; 79; 68; 69; 67].

(* the server's 'Y' handler: which codec letters it serves for which record type *)
Definition y_served (ty l : N) : bool :=
  ((l =? 84) || (l =? 83) || (l =? 85) || (l =? 86)) && memb ty src_y_text_types
  || (l =? 82) && memb ty src_y_raw_types.

(* downcheck: reply to the 'Y' test for codec letter l with record type ty *)
Definition downcheck (x : xf) (o : nat -> bool) (ty l : N) : option (list N) :=
  if y_served ty l then down_deliver x o ty l src_DOWNCODECCHECK1
  else down_deliver x o ty 84 s_BADCODEC.

(* handshake_downenctest / handshake_qtypetest / handshake_edns0_check: reply == DOWNCODECCHECK1 *)
Definition downenctest_eval (reply : option (list N)) : bool :=
  match reply with Some b => list_eqb b src_DOWNCODECCHECK1 | None => false end.

(* handshake_downenc_autodetect; result is the codec letter or 32 (' ': keep the default) *)
Definition downenc_autodetect (ty : N) (test : N -> bool) : N :=
  if (ty =? T_NULL) || (ty =? T_PRIVATE) then 32 else
  let base64ok := test 83 in
  let base64uok := if base64ok then false else test 85 in
  let base128ok := if base64ok || base64uok then test 86 else false in
  if base128ok && (ty =? T_TXT) && test 82 then 82
  else if base128ok then 86
  else if base64ok then 83
  else if base64uok then 85
  else 32.

Definition down_select (x : xf) (o : nat -> bool) (ty : N) : N :=
  downenc_autodetect ty (fun l => downenctest_eval (downcheck x o ty l)).

(* ==== query type ======================================================================= *)

Definition ntypes : nat := length src_qtype_order.
Definition qtype_of (idx : nat) : N := nth idx src_qtype_order 0.

(* one pass of the inner for loop: for (q = from; q < highest; q++) { if q >= ntypes break;
   if test q then return q }; highest unchanged otherwise *)
Fixpoint qtype_round (test : nat -> bool) (fuel : nat) (q highest : nat) : nat :=
  match fuel with
  | O => highest
  | S f => if (q <? highest)%nat && (q <? ntypes)%nat
           then if test q then q else qtype_round test f (S q) highest
           else highest
  end.

Fixpoint qtype_rounds (test : nat -> nat -> bool) (rounds : nat) (timeout highest : nat) : nat :=
  match rounds with
  | O => highest
  | S k => let h := qtype_round (fun q => test q timeout) (S ntypes) 0 highest in
           if (h =? 0)%nat then h else qtype_rounds test k (S timeout) h
  end.

(* handshake_qtype_autodetect: Some index into the preference order, None = "No suitable DNS
   query type found" (return 1) *)
Definition qtype_autodetect (test : nat -> nat -> bool) : option nat :=
  let h := qtype_rounds test (N.to_nat src_QTYPE_TIMEOUT_MAX) 1 100 in
  if (h <? ntypes)%nat then Some h else None.

Definition qtype_trycodec (ty : N) : N := if (ty =? T_NULL) || (ty =? T_PRIVATE) then 82 else 84.
Definition edns0_trycodec (ty : N) : N := if ty =? T_NULL then 82 else 84.

(* handshake_qtypetest for the idx-th type through relay r: the relay must serve the type, and
   the 'Y' reply must equal DOWNCODECCHECK1.  (The query names of the handshake are 7-bit ASCII
   without '+' and '_' in significant positions; no family member rejects them.) *)
Definition qtype_test (r : relay) (o : nat -> bool) (idx : nat) : bool :=
  type_allowed r idx &&
  downenctest_eval (downcheck (r_a r) o (qtype_of idx) (qtype_trycodec (qtype_of idx))).

Definition edns0_test (r : relay) (o : nat -> bool) (ty : N) : bool :=
  downenctest_eval (downcheck (r_a r) o ty (edns0_trycodec ty)).

(* ==== fragment size ==================================================================== *)

Inductive probe_res :=
  | PNoAnswer      (* no reply, BADIP, or ack for another size: keep trying, then "not ok" *)
  | PNotOk         (* acked, wrong length: this size is definitely not reliable *)
  | PCorrupt       (* acked, right length, contents altered: max_fragsize := -1 *)
  | POk.           (* max_fragsize := this size *)

Definition s_BADIP : list N := [66; 65; 68; 73; 80].

Fixpoint seq_okb (l : list N) (v : N) : bool :=
  match l with
  | [] => true
  | x :: t => (x =? v) && seq_okb t ((v + src_PROBE_STEP) mod 256)
  end.

(* fragsize_check(in, read, proposed, &max).  For read = 2 the C reads in[2] beyond the reply
   (stale buffer contents); the model reads 0 there -- size 2 is never probed (see autoprobe). *)
Definition fragsize_check (inb : list N) (proposed : N) : probe_res :=
  let read := length inb in
  if (5 <=? read)%nat && list_eqb (firstn 5 inb) s_BADIP then PNoAnswer else
  let acked := nth 0 inb 0 * 256 + nth 1 inb 0 in
  if negb (acked =? proposed) then PNoAnswer else
  if negb (N.of_nat read =? proposed) then PNotOk else
  if negb (nth 2 inb 0 =? src_PROBE_BYTE2) then PCorrupt else
  if seq_okb (skipn 3 inb) (nth 3 inb 0) then POk
  else if src_PROBE_CORRUPT_FATAL =? 1 then PCorrupt else PNotOk.

Definition probe_eval (reply : option (list N)) (proposed : N) : probe_res :=
  match reply with None => PNoAnswer | Some inb => fragsize_check inb proposed end.

(* the while loop of handshake_autoprobe_fragsize; maxf is max_fragsize (Z: it becomes -1) *)
Fixpoint autoprobe_loop (fuel : nat) (probe : N -> probe_res) (proposed range : N) (maxf : Z) : Z :=
  match fuel with
  | O => maxf
  | S f =>
      if (0 <? range) && ((src_PROBE_RANGE_MIN <=? range) || (maxf <? Z.of_N src_PROBE_ENOUGH)%Z) then
        let maxf' := match probe proposed with
                     | POk => Z.of_N proposed
                     | PCorrupt => (-1)%Z
                     | _ => maxf
                     end in
        if (maxf' <? 0)%Z then maxf'
        else
          let range' := N.shiftr range src_PROBE_SHIFT in
          let up := if (maxf' =? Z.of_N proposed)%Z then src_PROBE_OK_UP else src_PROBE_FAIL_UP in
          let proposed' := if up =? 1 then proposed + range' else proposed - range' in
          autoprobe_loop f probe proposed' range' maxf'
      else maxf
  end.

(* handshake_autoprobe_fragsize: 0 = failure ("found no accepted fragment size"), else max - 2 *)
Definition autoprobe (probe : N -> probe_res) : N :=
  let m := autoprobe_loop 16 probe src_PROBE_START src_PROBE_RANGE 0 in
  if (m <=? Z.of_N src_PROBE_MIN_OK)%Z then 0 else Z.to_N m - src_PROBE_HDR.

(* the server's probe answer: 2 bytes size, 107, then v, v+107, ... *)
Fixpoint probe_seq (n : nat) (v : N) : list N :=
  match n with O => [] | S n' => v :: probe_seq n' ((v + src_SRV_PROBE_STEP) mod 256) end.
Definition probe_payload (req v : N) : list N :=
  firstn (N.to_nat req) ([(req / 256) mod 256; req mod 256; src_SRV_PROBE_BYTE2] ++ probe_seq (N.to_nat 2045) v).

(* size and carried prefix of the server's answer (DnsMsg.write_dns) *)
Definition answer_msg (ty l : N) (qname payload : list N) : option (list N) :=
  fst (write_dns {| q_name := qname; q_type := ty; q_id := 1 |} payload l (O, O)).

(* CNAME / A answers carry only what fits one host name; the rest of the data is not sent *)
Definition carried (ty l : N) (payload : list N) : nat :=
  if (ty =? T_CNAME) || (ty =? T_A)
  then let '(_, n, _) := write_dns_nameenc buf1k payload l (O, O) in n
  else length payload.

(* probe r o ty l qname v F: outcome of the probe for size F *)
Definition probe (r : relay) (o : nat -> bool) (ty l : N) (qname : list N) (v : N) (F : N) : probe_res :=
  let payload := probe_payload F v in
  match answer_msg ty l qname payload with
  | None => PNoAnswer
  | Some msg =>
      if negb (passes_size r (length msg)) then PNoAnswer
      else probe_eval (down_deliver (r_a r) o ty l (firstn (carried ty l payload) payload)) F
  end.

(* ==== client_handshake ================================================================= *)

Record params := {
  p_relay : relay;
  p_qtype : N;            (* 0: autodetect, else the forced record type (-T) *)
  p_downenc : N;          (* 32: autodetect, else the forced codec letter (-O) *)
  p_rawmode : bool;       (* try raw UDP (not -r) *)
  p_autofrag : bool;      (* autoprobe (no -m) *)
  p_fragsize : N;         (* -m value when not autoprobing *)
  p_maxlen : nat;         (* -M hostname_maxlen *)
  p_topdomain : list N
}.

Record outcome := {
  o_rv : N;               (* client_handshake's return value (0 ok, 1 failed) *)
  o_qtype : N;            (* do_qtype (65432 = T_UNSET) *)
  o_up : N;               (* upstream codec id *)
  o_down : N;             (* downenc letter (32 = ' ') *)
  o_edns : bool;
  o_raw : bool;           (* conn == CONN_RAW_UDP *)
  o_frag : N              (* the server's fragsize for the session; 0 when not logged in *)
}.

Definition T_UNSET : N := 65432.
Definition default_fragsize : N := 100.    (* users[].fragsize after the version handshake *)

Definition idx_of_type (ty : N) : nat :=
  (fix go (l : list N) (i : nat) : nat :=
     match l with [] => i | t :: l' => if t =? ty then i else go l' (S i) end) src_qtype_order O.

Definition probe_qname (up : N) (topdomain : list N) (maxlen : nat) : list N :=
  match probe_name (codec_by_id up) 0 768 0 topdomain maxlen with
  | Some (nm, _) => nm
  | None => []
  end.

(* the whole handshake for a relay whose coins are given by the oracles (deterministic members
   ignore them) *)
Definition negotiate (p : params) (oq oa : nat -> bool) (v : N) : outcome :=
  let r := p_relay p in
  let fail ty := {| o_rv := 1; o_qtype := ty; o_up := 0; o_down := p_downenc p; o_edns := false; o_raw := false; o_frag := 0 |} in
  let qsel := if p_qtype p =? 0
              then match qtype_autodetect (fun q _ => qtype_test r oa q) with
                   | Some i => Some (qtype_of i)
                   | None => None
                   end
              else Some (p_qtype p) in
  match qsel with
  | None => fail T_UNSET
  | Some ty =>
      (* version + login need answers: the relay must serve the type *)
      if negb (type_allowed r (idx_of_type ty)) then fail ty else
      if p_rawmode p && r_rawok r then
        {| o_rv := 0; o_qtype := ty; o_up := 0; o_down := p_downenc p; o_edns := false; o_raw := true;
           o_frag := default_fragsize |}
      else
        let edns := edns0_test r oa ty in
        let hdr := [122; 97; 97; 97] in
        let up := fst (up_switch (up_select r oq oa ty hdr)) in
        let down := if p_downenc p =? 32 then down_select (r_a r) oa ty else p_downenc p in
        let frag := if p_autofrag p
                    then autoprobe (probe r oa ty down (probe_qname up (p_topdomain p) (p_maxlen p)) v)
                    else p_fragsize p in
        if p_autofrag p && (frag =? 0)
        then {| o_rv := 1; o_qtype := ty; o_up := up; o_down := down; o_edns := edns; o_raw := false;
                o_frag := default_fragsize |}
        else {| o_rv := 0; o_qtype := ty; o_up := up; o_down := down; o_edns := edns; o_raw := false;
                o_frag := frag |}
  end.
