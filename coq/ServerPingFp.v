(* ServerPingFp.v -- C16: for a ping whose data part is one label (as the client builds it: "p" + 7..
   Base32 chars + "." + domain) the fingerprint the server SAVES (decoded from the first label) is the
   fingerprint it COMPARES on arrival (decoded from the whole undotified data part).  For a ping whose
   data part is split over several labels the two differ: such a ping is never remembered in the ping
   memory (witness below). *)
From Coq Require Import List NArith ZArith Arith Bool Lia.
From RecordUpdate Require Import RecordUpdate.
From Iodine Require Import Generated.SrcConsts Base Codec CodecProofs Hostname DnsName DnsMsg Domain Server
  ServerRings ServerRefine ServerDedupProofs.
Import ListNotations.
Local Open Scope N_scope.

Lemma index_of_skip c l : forall k, ~ In c l -> forall r, index_of c (l ++ c :: r) k = Some (k + length l)%nat.
Proof.
  induction l as [|x l IH]; intros k Hn r.
  - simpl. rewrite N.eqb_refl. f_equal. lia.
  - simpl. destruct (x =? c) eqn:E; [apply N.eqb_eq in E; exfalso; apply Hn; left; exact E|].
    rewrite IH by (intros H; apply Hn; right; exact H). f_equal. lia.
Qed.

Lemma filter_nodot l : ~ In DOT l -> filter (fun ch => negb (ch =? DOT)) l = l.
Proof.
  induction l as [|x l IH]; intros Hn; [reflexivity|]. simpl.
  destruct (x =? DOT) eqn:E; [apply N.eqb_eq in E; exfalso; apply Hn; left; exact E|].
  simpl. f_equal. apply IH. intros H. apply Hn. right. exact H.
Qed.

(* decoding with a larger output capacity only appends *)
Lemma decode_first4 cap L :
  (8 <= cap)%nat -> (4 <= length (decode b32 8 L))%nat -> firstn 4 (decode b32 cap L) = firstn 4 (decode b32 8 L).
Proof.
  intros Hc Hl. unfold decode in *.
  destruct (dec_go_mono b32 8 cap 0 L L Hc (prefix_refl L)) as [t Ht]. rewrite Ht, firstn_app.
  replace (4 - length (dec_go b32 8 0 L))%nat with O by lia. simpl. apply app_nil_r.
Qed.

(* one data label L: name = c0 :: L ++ "." ++ rest, the dispatcher's data length is |c0 L .| *)
Theorem ping_fp_consistent cap c0 L rest :
  (8 <= cap)%nat ->
  is_letter c0 112 = true -> ~ In DOT L ->
  let nm := c0 :: L ++ DOT :: rest in
  let dl := S (S (length L)) in
  let unpacked := unpack_data b32 cap (skipn 1 (firstn dl nm)) (dl - 1) in
  (4 <= length (decode b32 8 L))%nat ->
  qm_kind nm = Some (true, firstn 4 unpacked).
Proof.
  intros Hcap Hp Hn nm dl unpacked Hlen.
  assert (Hc0 : c0 <> DOT).
  { apply is_letter_cases in Hp. unfold DOT. destruct Hp as [-> | ->]; discriminate. }
  unfold qm_kind. change (chr nm 0) with c0. rewrite Hp.
  assert (Hi : index_of DOT nm 0 = Some (S (length L))).
  { unfold nm. change (c0 :: L ++ DOT :: rest) with ((c0 :: L) ++ DOT :: rest).
    rewrite (index_of_skip DOT (c0 :: L) 0); [reflexivity|].
    intros [H|H]; [apply Hc0; exact H|apply Hn; exact H]. }
  rewrite Hi.
  assert (Hl : firstn (S (length L) - 1) (skipn 1 nm) = L).
  { unfold nm. cbn [skipn]. replace (S (length L) - 1)%nat with (length L) by lia. apply firstn_app_len. }
  rewrite Hl. cbv zeta.
  assert (E : (length (decode b32 8 L) <? 4)%nat = false) by (apply Nat.ltb_ge; exact Hlen). rewrite E.
  f_equal. f_equal.
  assert (Hu : unpacked = decode b32 cap L).
  { unfold unpacked, unpack_data, inline_undotify. f_equal.
    assert (F1 : firstn dl nm = c0 :: L ++ [DOT]).
    { unfold dl, nm.
      change (firstn (S (S (length L))) (c0 :: L ++ DOT :: rest)) with (c0 :: firstn (S (length L)) (L ++ DOT :: rest)).
      f_equal.
      replace (L ++ DOT :: rest) with ((L ++ [DOT]) ++ rest) by (rewrite <- app_assoc; reflexivity).
      replace (S (length L)) with (length (L ++ [DOT])) by (rewrite app_length; simpl; lia).
      apply firstn_app_len. }
    rewrite F1. cbn [skipn]. replace (dl - 1)%nat with (length (L ++ [DOT])) by (unfold dl; rewrite app_length; simpl; lia).
    rewrite firstn_all, filter_app, filter_nodot by exact Hn. simpl. apply app_nil_r. }
  rewrite Hu. symmetry. apply decode_first4; assumption.
Qed.

(* a ping whose data part is dotted early ("pab.cdefgh.<domain>") is processed as a ping -- 5 decoded
   bytes -- but no fingerprint is saved for it: once it has left the 4-entry answer cache nothing
   remembers it *)
Example ping_dotted_not_remembered :
  let nm := [112; 97; 98; 46; 99; 100; 101; 102; 103; 104; 46; 116; 46; 101; 120; 97; 109; 112; 108; 101; 46; 99; 111; 109] in
  query_datalen nm [116; 46; 101; 120; 97; 109; 112; 108; 101; 46; 99; 111; 109] = Some 11%nat /\
  length (unpack_data b32 100 (skipn 1 (firstn 11 nm)) 10) = 5%nat /\
  qm_kind nm = None.
Proof. vm_compute. repeat split. Qed.
