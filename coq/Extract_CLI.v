(* Extraction of the client model for the client-history correspondence runs. *)
From Coq Require Import Extraction ExtrOcamlBasic.
From Iodine Require Import Codec Hostname DnsName DnsMsg Server Client ClientLoop.
Extraction Language OCaml.
Set Extraction Optimize.
Extraction "extracted/model_cli.ml" ClientLoop.lstep ClientLoop.mkl Client.cstep Client.client_init Client.reads_tun Client.select_timeout_ms
  Server.zc_frame Server.unz_frame DnsMsg.write_dns DnsMsg.buf64k.
