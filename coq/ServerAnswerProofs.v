(* ServerAnswerProofs.v -- C14: the dispatcher (handle_null_request, tunnel_dns, raw frames, tun
   packets, sweeps = Server.step) is accounted; the invariant over traces; id 0; datagram level. *)
From Coq Require Import List NArith ZArith Arith Bool Lia Permutation.
From RecordUpdate Require Import RecordUpdate.
From Iodine Require Import Generated.SrcConsts Base Codec Hostname DnsName DnsMsg Domain Server
  ServerAnswerLedger ServerAnswerChunk ServerAnswerState ServerAnswerPing ServerAnswerData.
Import ListNotations.
Local Open Scope N_scope.

(* ---- events and their ghost effect ------------------------------------------------------------- *)

(* the query instance an event contributes to [received] *)
Definition ev_inst (e : event) : option inst :=
  match e with EDns _ _ q => Some (q_inst q) | _ => None end.
Definition ev_pool (e : event) : list inst :=
  match ev_inst e with Some i => [i] | None => [] end.

(* a freshly decoded query has no remembered duplicate (dns_decode: q->id2 = 0; recv_datagram
   builds the query with h_id2 := 0) *)
Definition wf_event (e : event) : Prop :=
  match e with EDns _ _ q => h_id2 q = 0 | _ => True end.

Lemma find_available_from_bound st now k i :
  find_available_from st now k = Some i -> (k <= i < k + length st)%nat.
Proof.
  revert k. induction st as [|u st IH]; intros k H; simpl in H; [discriminate|].
  destruct (_ && _) in H.
  - inversion H. subst. simpl. lia.
  - apply IH in H. simpl. lia.
Qed.

Lemma reset_uacc qi u q now seed data enc :
  uacc qi [q_inst q] u (reset_session (claim now u) q seed) [mk_answer q data enc] (user_held u).
Proof.
  unfold uacc.
  assert (E : user_held (reset_session (claim now u) q seed) = []) by reflexivity.
  rewrite E. simpl. reflexivity.
Qed.

Section WithOracles.
Set Default Proof Using "Type".
Variable login : list N -> N -> list N.
Variable zc : list N -> list N.
Variable unz : list N -> option (list N).

(* ---- handle_null_request ------------------------------------------------------------------------- *)

Ltac leaf :=
  cbn [fst snd];
  first
    [ eexists; apply acc_drop_pool
    | exists []; apply acc_answer_same; reflexivity
    | exists []; apply acc_answer_same;
      repeat (rewrite held_upd_frame by (intro; reflexivity)); reflexivity ].

Lemma handle_null_request_acc qi c st now rnd q dl : h_id2 q = 0 ->
  exists d, acc qi [q_inst q] st (fst (handle_null_request login unz c st now rnd q dl))
                                  (snd (handle_null_request login unz c st now rnd q dl)) d.
Proof.
  intros H2. unfold handle_null_request. cbv beta zeta.
  repeat match goal with
         | |- exists d, acc _ _ _ (fst (if ?b then _ else _)) _ d => destruct b eqn:?
         | |- exists d, acc _ _ _ (fst (match ?x with Some _ => _ | None => _ end)) _ d => destruct x eqn:?
         end;
  try solve [leaf].
  - (* V, slot allocated: the held queries of the recycled slot are dropped *)
    cbn [fst snd]. eexists. apply acc_upd; [|apply reset_uacc].
    match goal with H : find_available_from _ _ _ = Some _ |- _ => apply find_available_from_bound in H; lia end.
  - (* P *)
    apply handle_ping_acc; [|exact H2].
    match goal with H : (h_id q =? 0) = false |- _ => apply N.eqb_neq in H; exact H end.
  - (* data *)
    apply handle_data_acc; [|exact H2].
    match goal with H : (h_id q =? 0) = false |- _ => apply N.eqb_neq in H; exact H end.
Qed.

(* ---- tunnel_dns -------------------------------------------------------------------------------------- *)

Lemma tunnel_dns_acc c st now rnd q : h_id2 q = 0 ->
  exists d, acc (Some (q_inst q)) [q_inst q] st (fst (tunnel_dns login unz c st now rnd q))
                                              (snd (tunnel_dns login unz c st now rnd q)) d.
Proof.
  intros H2. unfold tunnel_dns.
  destruct (query_datalen _ _) as [dl|].
  2:{ destruct (c_bind c); cbn [fst snd]; [|eexists; apply acc_drop_pool].
      exists [q_inst q]. apply acc_same_held; reflexivity. }
  cbv zeta. destruct (aux_answer _ _ _ _) as [bytes|].
  { cbn [fst snd]. exists []. apply acc_same_held; reflexivity. }
  destruct (_ || _); [cbn [fst snd]; eexists; apply acc_drop_pool|].
  destruct (_ || _); [|cbn [fst snd]; eexists; apply acc_drop_pool].
  apply handle_null_request_acc. exact H2.
Qed.

(* ---- one step of the server ---------------------------------------------------------------------------- *)

(* Every answer of a step is paid for by the event's own query (EDns only) or by a query the state
   held; a raw-mode frame, a tun packet and a sweep contribute nothing to [received] (ev_pool = []),
   so their answers come out of held queries only. *)
Lemma step_acc c st e : wf_event e ->
  exists d, acc (ev_inst e) (ev_pool e) st (fst (step login zc unz c st e)) (snd (step login zc unz c st e)) d.
Proof.
  intros Hwf. destruct e as [now rnd q|now from packet|now packet|now|now]; simpl step.
  - apply tunnel_dns_acc. exact Hwf.
  - unfold ev_pool, ev_inst. destruct (raw_decode _ _ _ _ _ _ _) as [r|] eqn:R.
    + eapply raw_decode_spec. exact R.
    + exists []. apply acc_refl.
  - unfold ev_pool, ev_inst. destruct (tunnel_tun zc st now packet) as [st' o] eqn:T.
    exists []. eapply tunnel_tun_spec. exact T.
  - unfold ev_pool, ev_inst. cbn [fst snd]. exists []. apply acc_same_held; [apply held_sweep_clear|reflexivity].
  - unfold ev_pool, ev_inst. destruct (sweep_send _ _ _ _ _) as [st' o] eqn:S.
    apply (sweep_send_spec None) in S. destruct S as (o' & -> & A & _). exists []. exact A.
Qed.

(* ---- traces ------------------------------------------------------------------------------------------------ *)

(* run the events, accumulating the ghost multisets *)
Fixpoint run (c : cfg) (st : sstate) (evs : list event) (received answered : list inst)
  : sstate * list inst * list inst :=
  match evs with
  | [] => (st, received, answered)
  | e :: rest =>
      let r := step login zc unz c st e in
      run c (fst r) rest (ev_pool e ++ received) (answered ++ answers (ev_inst e) (snd r))
  end.

Lemma Inv_one_step c st e received answered : wf_event e -> Inv st received answered ->
  Inv (fst (step login zc unz c st e)) (ev_pool e ++ received)
      (answered ++ answers (ev_inst e) (snd (step login zc unz c st e))).
Proof.
  intros Hwf HI. destruct (step_acc c st e Hwf) as [d A]. eapply Inv_step; eassumption.
Qed.

Lemma Inv_run c evs : forall st received answered,
  Forall wf_event evs -> Inv st received answered ->
  let '(st', rc, an) := run c st evs received answered in Inv st' rc an.
Proof.
  induction evs as [|e evs IH]; intros st rc an Hwf HI; simpl.
  - exact HI.
  - inversion Hwf. subst. apply IH; [assumption|]. apply Inv_one_step; assumption.
Qed.

Lemma held_init ips : held (init_state ips) = [].
Proof. unfold init_state, held. induction ips as [|ip ips IH]; [reflexivity|]. simpl. exact IH. Qed.

Lemma Inv_init ips : Inv (init_state ips) [] [].
Proof. exists []. rewrite held_init. reflexivity. Qed.

(* ---- structural bound on what a session holds -------------------------------------------------------- *)

Lemma hq_held_bound h : (length (hq_held h) <= 2)%nat.
Proof. unfold hq_held. destruct (h_id h =? 0); [simpl; lia|]. destruct (h_id2 h =? 0); simpl; lia. Qed.

Lemma user_held_bound u : (length (user_held u) <= 4)%nat.
Proof.
  unfold user_held. rewrite app_length.
  pose proof (hq_held_bound (u_q u)). pose proof (hq_held_bound (u_qs u)). lia.
Qed.

Lemma hq_held_ids h i : In i (hq_held h) -> inst_id i <> 0.
Proof.
  unfold hq_held. destruct (h_id h =? 0) eqn:E; [intros []|]. apply N.eqb_neq in E.
  intros [<-|H]; [exact E|]. destruct (h_id2 h =? 0) eqn:E2; [destruct H|]. apply N.eqb_neq in E2.
  destruct H as [<-|[]]. exact E2.
Qed.

Lemma held_ids st i : In i (held st) -> inst_id i <> 0.
Proof.
  unfold held. intros H. apply in_flat_map in H. destruct H as (u & _ & H).
  unfold user_held in H. apply in_app_or in H. destruct H as [H|H]; eapply hq_held_ids; exact H.
Qed.

(* ---- id 0 -------------------------------------------------------------------------------------------------- *)

Definition is_ping_name (dl : nat) (name : list N) : bool := is_letter (chr (firstn dl name) 0) 112.
Definition is_data_name (dl : nat) (name : list N) : bool :=
  let c0 := chr (firstn dl name) 0 in
  ((48 <=? c0) && (c0 <=? 57)) || ((97 <=? c0) && (c0 <=? 102)) || ((65 <=? c0) && (c0 <=? 70)).

Lemma not_letter c l : c <> l -> c <> l - 32 -> is_letter c l = false.
Proof. intros H1 H2. unfold is_letter. apply N.eqb_neq in H1, H2. rewrite H1, H2. reflexivity. Qed.

Lemma handle_null_request_id0 c st now rnd q dl :
  h_id q = 0 -> is_ping_name dl (h_name q) || is_data_name dl (h_name q) = true ->
  handle_null_request login unz c st now rnd q dl = (st, []).
Proof.
  intros Hz Hk. unfold handle_null_request.
  destruct (dl <? 2)%nat; [reflexivity|]. cbv zeta.
  unfold is_ping_name, is_data_name in Hk. cbv zeta in Hk.
  set (c0 := chr (firstn dl (h_name q)) 0) in *.
  assert (Hc : c0 = 112 \/ c0 = 80 \/ 48 <= c0 <= 57 \/ 97 <= c0 <= 102 \/ 65 <= c0 <= 70).
  { unfold is_letter in Hk. lia. }
  rewrite (not_letter c0 118) by lia. rewrite (not_letter c0 108) by lia.
  rewrite (not_letter c0 105) by lia. rewrite (not_letter c0 122) by lia.
  rewrite (not_letter c0 115) by lia. rewrite (not_letter c0 111) by lia.
  rewrite (not_letter c0 121) by lia. rewrite (not_letter c0 114) by lia.
  rewrite (not_letter c0 110) by lia.
  rewrite Hz. simpl (0 =? 0).
  destruct (is_letter c0 112); [reflexivity|].
  destruct (_ || _); [|reflexivity]. destruct (dl <? 6)%nat; reflexivity.
Qed.

End WithOracles.
