(* ServerAnswerProofs.v -- C14: the dispatcher (handle_null_request, tunnel_dns, raw frames, tun
   packets, sweeps = Server.step) is accounted; the invariant over traces; id 0; datagram level. *)
From Coq Require Import List NArith ZArith Arith Bool Lia Permutation.
From RecordUpdate Require Import RecordUpdate.
From Iodine Require Import Generated.SrcConsts Base Codec Hostname DnsName DnsMsg Domain Server
  ServerAnswerLedger ServerAnswerChunk ServerAnswerState ServerAnswerPing ServerAnswerData.
Import ListNotations.
Local Open Scope N_scope.

(* ---- events and their ghost effect ------------------------------------------------------------- *)

(* the query instance an event contributes to [received] *)
Definition ev_inst (e : event) : option inst :=
  match e with EDns _ _ q => Some (q_inst q) | _ => None end.
Definition ev_pool (e : event) : list inst :=
  match ev_inst e with Some i => [i] | None => [] end.

(* a freshly decoded query has no remembered duplicate (dns_decode: q->id2 = 0; recv_datagram
   builds the query with h_id2 := 0) *)
Definition wf_event (e : event) : Prop :=
  match e with EDns _ _ q => h_id2 q = 0 | _ => True end.

Lemma find_available_from_bound st now k i :
  find_available_from st now k = Some i -> (k <= i < k + length st)%nat.
Proof.
  revert k. induction st as [|u st IH]; intros k H; simpl in H; [discriminate|].
  destruct (_ && _) in H.
  - inversion H. subst. simpl. lia.
  - apply IH in H. simpl. lia.
Qed.

Lemma reset_uacc qi u q now seed data enc :
  uacc qi [q_inst q] u (reset_session (claim now u) q seed) [mk_answer q data enc] (user_held u).
Proof.
  unfold uacc.
  assert (E : user_held (reset_session (claim now u) q seed) = []) by reflexivity.
  rewrite E. simpl. reflexivity.
Qed.

Section WithOracles.
Set Default Proof Using "Type".
Variable login : list N -> N -> list N.
Variable zc : list N -> list N.
Variable unz : list N -> option (list N).

(* ---- handle_null_request ------------------------------------------------------------------------- *)

Ltac leaf :=
  cbn [fst snd];
  first
    [ eexists; apply acc_drop_pool
    | exists []; apply acc_answer_same; reflexivity
    | exists []; apply acc_answer_same;
      repeat (rewrite held_upd_frame by (intro; reflexivity)); reflexivity ].

Lemma handle_null_request_acc qi c st now rnd q dl : h_id2 q = 0 ->
  exists d, acc qi [q_inst q] st (fst (handle_null_request login unz c st now rnd q dl))
                                  (snd (handle_null_request login unz c st now rnd q dl)) d.
Proof.
  intros H2. unfold handle_null_request. cbv beta zeta.
  repeat match goal with
         | |- exists d, acc _ _ _ (fst (if ?b then _ else _)) _ d => destruct b eqn:?
         | |- exists d, acc _ _ _ (fst (match ?x with Some _ => _ | None => _ end)) _ d => destruct x eqn:?
         end;
  try solve [leaf].
  - (* V, slot allocated: the held queries of the recycled slot are dropped *)
    cbn [fst snd]. eexists. apply acc_upd; [|apply reset_uacc].
    match goal with H : find_available_from _ _ _ = Some _ |- _ => apply find_available_from_bound in H; lia end.
  - (* P *)
    apply handle_ping_acc; [|exact H2].
    match goal with H : (h_id q =? 0) = false |- _ => apply N.eqb_neq in H; exact H end.
  - (* data *)
    apply handle_data_acc; [|exact H2].
    match goal with H : (h_id q =? 0) = false |- _ => apply N.eqb_neq in H; exact H end.
Qed.

(* ---- tunnel_dns -------------------------------------------------------------------------------------- *)

Lemma tunnel_dns_acc c st now rnd q : h_id2 q = 0 ->
  exists d, acc (Some (q_inst q)) [q_inst q] st (fst (tunnel_dns login unz c st now rnd q))
                                              (snd (tunnel_dns login unz c st now rnd q)) d.
Proof.
  intros H2. unfold tunnel_dns.
  destruct (query_datalen _ _) as [dl|].
  2:{ destruct (c_bind c); cbn [fst snd]; [|eexists; apply acc_drop_pool].
      exists [q_inst q]. apply acc_same_held; reflexivity. }
  cbv zeta. destruct (aux_answer _ _ _ _) as [bytes|].
  { cbn [fst snd]. exists []. apply acc_same_held; reflexivity. }
  destruct (_ || _); [cbn [fst snd]; eexists; apply acc_drop_pool|].
  destruct (_ || _); [|cbn [fst snd]; eexists; apply acc_drop_pool].
  apply handle_null_request_acc. exact H2.
Qed.

(* ---- one step of the server ---------------------------------------------------------------------------- *)

(* Every answer of a step is paid for by the event's own query (EDns only) or by a query the state
   held; a raw-mode frame, a tun packet and a sweep contribute nothing to [received] (ev_pool = []),
   so their answers come out of held queries only. *)
Lemma step_acc c st e : wf_event e ->
  exists d, acc (ev_inst e) (ev_pool e) st (fst (step login zc unz c st e)) (snd (step login zc unz c st e)) d.
Proof.
  intros Hwf. destruct e as [now rnd q|now from packet|now packet|now|now]; simpl step.
  - apply tunnel_dns_acc. exact Hwf.
  - unfold ev_pool, ev_inst. destruct (raw_decode _ _ _ _ _ _ _) as [r|] eqn:R.
    + eapply raw_decode_spec. exact R.
    + exists []. apply acc_refl.
  - unfold ev_pool, ev_inst. destruct (tunnel_tun zc st now packet) as [st' o] eqn:T.
    exists []. eapply tunnel_tun_spec. exact T.
  - unfold ev_pool, ev_inst. cbn [fst snd]. exists []. apply acc_same_held; [apply held_sweep_clear|reflexivity].
  - unfold ev_pool, ev_inst. destruct (sweep_send _ _ _ _ _) as [st' o] eqn:S.
    apply (sweep_send_spec None) in S. destruct S as (o' & -> & A & _). exists []. exact A.
Qed.

(* ---- traces ------------------------------------------------------------------------------------------------ *)

(* run the events, accumulating the ghost multisets *)
Fixpoint run (c : cfg) (st : sstate) (evs : list event) (received answered : list inst)
  : sstate * list inst * list inst :=
  match evs with
  | [] => (st, received, answered)
  | e :: rest =>
      let r := step login zc unz c st e in
      run c (fst r) rest (ev_pool e ++ received) (answered ++ answers (ev_inst e) (snd r))
  end.

Lemma Inv_one_step c st e received answered : wf_event e -> Inv st received answered ->
  Inv (fst (step login zc unz c st e)) (ev_pool e ++ received)
      (answered ++ answers (ev_inst e) (snd (step login zc unz c st e))).
Proof.
  intros Hwf HI. destruct (step_acc c st e Hwf) as [d A]. eapply Inv_step; eassumption.
Qed.

Lemma Inv_run c evs : forall st received answered,
  Forall wf_event evs -> Inv st received answered ->
  let '(st', rc, an) := run c st evs received answered in Inv st' rc an.
Proof.
  induction evs as [|e evs IH]; intros st rc an Hwf HI; simpl.
  - exact HI.
  - inversion Hwf. subst. apply IH; [assumption|]. apply Inv_one_step; assumption.
Qed.

Lemma held_init ips : held (init_state ips) = [].
Proof. unfold init_state, held. induction ips as [|ip ips IH]; [reflexivity|]. simpl. exact IH. Qed.

Lemma Inv_init ips : Inv (init_state ips) [] [].
Proof. exists []. rewrite held_init. reflexivity. Qed.

(* ---- structural bound on what a session holds -------------------------------------------------------- *)

Lemma hq_held_bound h : (length (hq_held h) <= 2)%nat.
Proof. unfold hq_held. destruct (h_id h =? 0); [simpl; lia|]. destruct (h_id2 h =? 0); simpl; lia. Qed.

Lemma user_held_bound u : (length (user_held u) <= 4)%nat.
Proof.
  unfold user_held. rewrite app_length.
  pose proof (hq_held_bound (u_q u)). pose proof (hq_held_bound (u_qs u)). lia.
Qed.

Lemma hq_held_ids h i : In i (hq_held h) -> inst_id i <> 0.
Proof.
  unfold hq_held. destruct (h_id h =? 0) eqn:E; [intros []|]. apply N.eqb_neq in E.
  intros [<-|H]; [exact E|]. destruct (h_id2 h =? 0) eqn:E2; [destruct H|]. apply N.eqb_neq in E2.
  destruct H as [<-|[]]. exact E2.
Qed.

Lemma held_ids st i : In i (held st) -> inst_id i <> 0.
Proof.
  unfold held. intros H. apply in_flat_map in H. destruct H as (u & _ & H).
  unfold user_held in H. apply in_app_or in H. destruct H as [H|H]; eapply hq_held_ids; exact H.
Qed.

(* ---- id 0 -------------------------------------------------------------------------------------------------- *)

Definition is_ping_name (dl : nat) (name : list N) : bool := is_letter (chr (firstn dl name) 0) 112.
Definition is_data_name (dl : nat) (name : list N) : bool :=
  let c0 := chr (firstn dl name) 0 in
  ((48 <=? c0) && (c0 <=? 57)) || ((97 <=? c0) && (c0 <=? 102)) || ((65 <=? c0) && (c0 <=? 70)).

Lemma not_letter c l : c <> l -> c <> l - 32 -> is_letter c l = false.
Proof. intros H1 H2. unfold is_letter. apply N.eqb_neq in H1, H2. rewrite H1, H2. reflexivity. Qed.

Lemma handle_null_request_id0 c st now rnd q dl :
  h_id q = 0 -> is_ping_name dl (h_name q) || is_data_name dl (h_name q) = true ->
  handle_null_request login unz c st now rnd q dl = (st, []).
Proof.
  intros Hz Hk. unfold handle_null_request.
  destruct (dl <? 2)%nat; [reflexivity|]. cbv zeta.
  unfold is_ping_name, is_data_name in Hk. cbv zeta in Hk.
  set (c0 := chr (firstn dl (h_name q)) 0) in *.
  assert (Hc : c0 = 112 \/ c0 = 80 \/ 48 <= c0 <= 57 \/ 97 <= c0 <= 102 \/ 65 <= c0 <= 70).
  { unfold is_letter in Hk. lia. }
  rewrite (not_letter c0 118) by lia. rewrite (not_letter c0 108) by lia.
  rewrite (not_letter c0 105) by lia. rewrite (not_letter c0 122) by lia.
  rewrite (not_letter c0 115) by lia. rewrite (not_letter c0 111) by lia.
  rewrite (not_letter c0 121) by lia. rewrite (not_letter c0 114) by lia.
  rewrite (not_letter c0 110) by lia.
  rewrite Hz. simpl (0 =? 0).
  destruct (is_letter c0 112); [reflexivity|].
  destruct (_ || _); [|reflexivity]. destruct (dl <? 6)%nat; reflexivity.
Qed.

(* every answer with DNS id 0 is the direct answer to the event's own query *)
Lemma step_answer_id0 c st e i : wf_event e ->
  In i (answers (ev_inst e) (snd (step login zc unz c st e))) -> inst_id i = 0 -> ev_inst e = Some i.
Proof.
  intros Hwf Hin Hz. destruct (step_acc c st e Hwf) as [d A].
  pose proof (acc_answers_from _ _ _ _ _ _ A i) as Hc.
  assert (Hp : (1 <= cnt (answers (ev_inst e) (snd (step login zc unz c st e))) i)%nat).
  { unfold cnt. apply (count_occ_In inst_dec) in Hin. lia. }
  rewrite cnt_app in Hc.
  assert (Hh : cnt (held st) i = 0%nat).
  { unfold cnt. apply count_occ_not_In. intros Hi. apply held_ids in Hi. contradiction. }
  assert (Hq : (1 <= cnt (ev_pool e) i)%nat) by lia.
  unfold ev_pool in Hq. destruct (ev_inst e) as [j|]; [|simpl in Hq; lia].
  rewrite cnt_cons, cnt_nil in Hq. unfold cnt1 in Hq. destruct (inst_dec j i); [congruence|lia].
Qed.

(* ---- accepted pings and data queries: the older query goes first ------------------------------- *)

Definition ping_accepted (c : cfg) (st : sstate) (now : N) (q : hq) (unpacked : list N) : Prop :=
  let userid := schar (chr unpacked 0) in
  let u := getu st (Z.to_nat userid) in
  check_auth c st now userid (h_from q) = false /\
  answer_from_dnscache u (h_name q) (h_type q) = None /\
  qmem_hit (u_pingmem u) (firstn 4 unpacked) (h_type q) = false /\
  dup_pending u q WQ = false /\ dup_pending u q WQS = false.

Lemma ping_accepted_guard c st now q unpacked :
  ping_accepted c st now q unpacked -> ping_guard c st now q unpacked = None.
Proof.
  unfold ping_accepted, ping_guard. cbv zeta. intros (H1 & H2 & H3 & H4 & H5).
  rewrite H1, H2, H3, H4, H5. reflexivity.
Qed.

Lemma handle_ping_accepted qi c st now q unpacked :
  ping_accepted c st now q unpacked -> h_id q <> 0 -> h_id2 q = 0 ->
  let i := Z.to_nat (schar (chr unpacked 0)) in
  let u := getu st i in
  let r := handle_ping c st now q unpacked in
  let u' := getu (fst r) i in
  acc qi [q_inst q] st (fst r) (snd r) [] /\
  (h_id (u_q u) <> 0 -> answered_by (snd r) (u_q u)) /\
  (h_id (u_qs u) <> 0 -> answered_by (snd r) (u_qs u)) /\
  (u_q u' = q \/ (answered_by (snd r) q /\ h_id (u_q u') = 0)) /\
  h_id (u_qs u') = 0 /\
  (u_lazy u = false -> answered_by (snd r) q).
Proof.
  intros Ha Hn H2. pose proof Ha as (Hc & _). apply check_auth_inrange in Hc.
  cbv zeta. rewrite handle_ping_eq, (ping_accepted_guard _ _ _ _ _ Ha). cbv zeta.
  destruct (ping_tail _ now q unpacked) as [u5 outs] eqn:T. cbn [fst snd].
  apply (ping_tail_spec qi) in T; [|assumption..]. destruct T as (A & Q & S & N' & Z & _ & L).
  rewrite getu_upd_same by exact Hc.
  split; [apply acc_upd; assumption|]. auto.
Qed.

Definition data_accepted (c : cfg) (st : sstate) (now : N) (q : hq) (inb : list N) : Prop :=
  let code := data_code inb in
  let u := getu st (N.to_nat code) in
  check_auth c st now (Z.of_N code) (h_from q) = false /\
  answer_from_dnscache u (h_name q) (h_type q) = None /\
  qmem_hit (u_datamem u) (lower4 (h_name q)) (h_type q) = false /\
  dup_pending u q WQ = false /\ dup_pending u q WQS = false.

Lemma data_accepted_guard c st now q inb :
  data_accepted c st now q inb -> data_guard c st now q inb = None.
Proof.
  unfold data_accepted, data_guard. cbv zeta. intros (H1 & H2 & H3 & H4 & H5).
  rewrite H1, H2, H3, H4, H5. reflexivity.
Qed.

Lemma handle_data_accepted qi c st now q inb dl :
  data_accepted c st now q inb -> h_id q <> 0 -> h_id2 q = 0 ->
  let i := N.to_nat (data_code inb) in
  let u := getu st i in
  let r := handle_data unz c st now q inb dl in
  let u' := getu (fst r) i in
  acc qi [q_inst q] st (fst r) (snd r) [] /\
  (h_id (u_qs u) <> 0 -> answered_by (snd r) (u_qs u)) /\
  (h_id (u_q u) <> 0 ->
     answered_by (snd r) (u_q u) \/
     (u_qs u' = u_q u /\ u_lazy u' = true /\ u_qs_new u' = true /\ u_q u' = q /\
      (h_id (u_qs u) <> 0 -> answered_by (snd r) (u_qs u)))) /\
  (u_q u' = q \/ (u_qs u' = q /\ h_id (u_q u') = 0) \/ (answered_by (snd r) q /\ h_id (u_q u') = 0)) /\
  (u_lazy u = false -> answered_by (snd r) q \/ u_qs u' = q).
Proof.
  intros Ha Hn H2. pose proof Ha as (Hc & _). apply check_auth_inrange in Hc.
  replace (Z.to_nat (Z.of_N (data_code inb))) with (N.to_nat (data_code inb)) in Hc by lia.
  cbv zeta. rewrite handle_data_eq, (data_accepted_guard _ _ _ _ _ Ha).
  destruct (data_tail unz st now q _ inb dl) as [st' outs] eqn:T. cbn [fst snd].
  apply (data_tail_spec unz qi) in T; [|assumption..]. exact T.
Qed.

(* ---- datagram level: what the correspondence run executes ----------------------------------------- *)

(* the event a datagram on the DNS socket amounts to (None: dropped by read_dns) *)
Definition dgram_event (c : cfg) (st : sstate) (now rnd : N) (from : addr) (dest : option (list N))
           (packet : list N) : option event :=
  match packet with
  | [] => None
  | _ =>
    match raw_decode login unz c st now packet from with
    | Some _ => Some (ERaw now from packet)
    | None =>
        let r := dns_decode_query packet (length packet) in
        match dq_q r with
        | Some q =>
            if (0 <? dq_rv r)%Z
            then Some (EDns now rnd {| h_name := q_name q; h_type := q_type q; h_id := q_id q; h_from := from;
                                       h_id2 := 0; h_from2 := addr0; h_dest := dest |})
            else None
        | None => None
        end
    end
  end.

Lemma recv_datagram_step c st now rnd from dest packet :
  recv_datagram login unz c st now rnd from dest packet =
  match dgram_event c st now rnd from dest packet with
  | Some e => step login zc unz c st e
  | None => (st, [])
  end.
Proof.
  unfold recv_datagram, dgram_event. destruct packet as [|b p]; [reflexivity|].
  destruct (raw_decode login unz c st now (b :: p) from) as [r|] eqn:R.
  - simpl. rewrite R. reflexivity.
  - cbv zeta. destruct (dq_q _); [|reflexivity]. destruct (0 <? _)%Z; reflexivity.
Qed.

Lemma dgram_event_wf c st now rnd from dest packet e :
  dgram_event c st now rnd from dest packet = Some e -> wf_event e.
Proof.
  unfold dgram_event. destruct packet as [|b p]; [discriminate|].
  destruct (raw_decode _ _ _ _ _ _ _).
  - intros H. inversion H. exact I.
  - cbv zeta. destruct (dq_q _); [|discriminate]. destruct (0 <? _)%Z; [|discriminate].
    intros H. inversion H. reflexivity.
Qed.

(* history events as in harness/h_srvhist.c and ocaml/drv_srv.ml: X (datagram), T (tun), S (sweep) *)
Inductive hevent :=
| HDgram (now rnd : N) (from : addr) (dest : option (list N)) (packet : list N)
| HTun (now : N) (packet : list N)
| HSweep (now : N).

Definition hstep (c : cfg) (st : sstate) (h : hevent) : sstate * list out :=
  match h with
  | HDgram now rnd from dest packet => recv_datagram login unz c st now rnd from dest packet
  | HTun now packet => tunnel_tun zc st now packet
  | HSweep now => let st1 := sweep_clear st now in sweep_send (length st1) 0 st1 now []
  end.

(* the received instance of a history event: only a datagram that decodes as a DNS query counts *)
Definition h_inst (c : cfg) (st : sstate) (h : hevent) : option inst :=
  match h with
  | HDgram now rnd from dest packet =>
      match dgram_event c st now rnd from dest packet with Some e => ev_inst e | None => None end
  | _ => None
  end.
Definition h_pool (c : cfg) (st : sstate) (h : hevent) : list inst :=
  match h_inst c st h with Some i => [i] | None => [] end.

Lemma Inv_hstep c st h received answered : Inv st received answered ->
  Inv (fst (hstep c st h)) (h_pool c st h ++ received) (answered ++ answers (h_inst c st h) (snd (hstep c st h))).
Proof.
  intros HI. destruct h as [now rnd from dest packet|now packet|now]; unfold h_pool, h_inst, hstep.
  - rewrite recv_datagram_step. destruct (dgram_event c st now rnd from dest packet) as [e|] eqn:E.
    + apply (Inv_one_step c st e); [eapply dgram_event_wf; exact E|exact HI].
    + cbn [fst snd answers flat_map]. rewrite app_nil_r. exact HI.
  - exact (Inv_one_step c st (ETun now packet) received answered I HI).
  - pose proof (Inv_one_step c st (ESweepClear now) received answered I HI) as H1.
    cbn [step fst snd ev_inst ev_pool answers flat_map] in H1. rewrite app_nil_r in H1. simpl app in H1.
    pose proof (Inv_one_step c (sweep_clear st now) (ESweepSend now) received answered I H1) as H2.
    exact H2.
Qed.

Fixpoint hrun (c : cfg) (st : sstate) (hs : list hevent) (received answered : list inst)
  : sstate * list inst * list inst :=
  match hs with
  | [] => (st, received, answered)
  | h :: rest =>
      let r := hstep c st h in
      hrun c (fst r) rest (h_pool c st h ++ received) (answered ++ answers (h_inst c st h) (snd r))
  end.

Lemma Inv_hrun c hs : forall st received answered, Inv st received answered ->
  let '(st', rc, an) := hrun c st hs received answered in Inv st' rc an.
Proof.
  induction hs as [|h hs IH]; intros st rc an HI; simpl.
  - exact HI.
  - apply IH. apply Inv_hstep. exact HI.
Qed.

End WithOracles.
