(* Properties_C02.v -- final statements for property C02 (progress and recovery, no wedge).

   C02 is a liveness property of two programs with timers running over a faulty network.  What is
   proved here, and what is left to the timed whole-system oracle of the check:

   (A) LOGIC OF BOTH FRAGMENT/ACK STATE MACHINES (ProtoLive.v over ProtoUp.v / ProtoDown.v): on a
       clean path -- each round the sender's current chunk reaches the receiver and the receiver's
       acknowledgement for that very chunk reaches the sender -- every round makes progress; a packet
       of n <= 16 fragments accepted while the receiver is at most 3 packets behind is handed to
       uncompress() EXACTLY ONCE, complete, after exactly n rounds, and both sides end synchronised;
       hence any sequence of packets is delivered exactly once each in the order accepted
       (C02_*_clean_path_exactly_once_in_order); and from ANY state reachable inside N* in which a
       packet is in flight and the receiver is at most 4 packets behind, the packet in flight is
       completed within n - j rounds and the sides are synchronised (C02_upstream_recovery).
   (B) TIMERS OF THE CLIENT (TimerProofs.v over Client.v): from every client state four consecutive
       select timeouts end the sending state (packet given up after the 3rd retransmission), and the
       select timeout is always positive and bounded -- the client cannot stay wedged on a packet
       nor sleep forever.
   C02_partial: not proved: that the real select loops schedule a clean round within a bounded TIME
   (composition of the timers of both programs with the network), the server's send-real-soon
   sweep and lazy-mode hold, and the re-synchronisation
   when the receiver is 5..8 packets behind (the logic then loses up to 4 leading packets: the
   "recent seqno" window; measured by the oracle as RESYNC_LOSS).  Those parts are decided by the
   correspondence of Client.v/Server.v/Tunnel.v with the C code plus the exactly-once / bounded-time
   oracle on the real programs in virtual time. *)
From Coq Require Import List Arith Bool Lia NArith.
From Iodine Require Import ProtoUp ProtoUpProofs ProtoDown ProtoDownProofs ProtoLive Client ClientLoop TimerProofs Server ServerLoop.
Import ListNotations.

Theorem C02_upstream_clean_path_exactly_once_in_order_partial :
  forall ns s outs,
  Inv s -> sact (snd_ s) = false -> sk (snd_ s) <= rR (rcv_ s) + 3 -> Forall (fun n => 1 <= n <= 16) ns ->
  exists s', clean_packets ns s outs = Some (s', outs ++ tags_from (S (sk (snd_ s))) ns) /\ Inv s' /\
             sact (snd_ s') = false /\ sk (snd_ s') = sk (snd_ s) + length ns /\
             (ns <> [] -> rR (rcv_ s') = sk (snd_ s')).
Proof. exact clean_packets_spec. Qed.
Print Assumptions C02_upstream_clean_path_exactly_once_in_order_partial.

Theorem C02_downstream_clean_path_exactly_once_in_order_partial :
  forall ns s outs,
  DInv s -> dact (dsnd s) = false -> dk (dsnd s) <= cR (drcv s) + 3 -> Forall (fun n => 1 <= n <= 16) ns ->
  exists s', dclean_packets ns s outs = Some (s', outs ++ tags_from (S (dk (dsnd s))) ns) /\ DInv s' /\
             dact (dsnd s') = false /\ dk (dsnd s') = dk (dsnd s) + length ns /\
             (ns <> [] -> cR (drcv s') = dk (dsnd s')).
Proof. exact dclean_packets_spec. Qed.
Print Assumptions C02_downstream_clean_path_exactly_once_in_order_partial.

Theorem C02_upstream_recovery_partial :
  forall s outs,
  reach s outs -> sact (snd_ s) = true -> sk (snd_ s) <= rR (rcv_ s) + 4 ->
  exists s' outs', clean_rounds (sn (snd_ s) - sf (snd_ s)) s outs = Some (s', outs') /\ Inv s' /\
     sact (snd_ s') = false /\ sk (snd_ s') = sk (snd_ s) /\ rR (rcv_ s') = sk (snd_ s) /\
     (outs' = outs \/ outs' = outs ++ [seq_tags (sk (snd_ s)) (sn (snd_ s))]).
Proof. exact clean_recovery. Qed.
Print Assumptions C02_upstream_recovery_partial.

Theorem C02_downstream_recovery_partial :
  forall s outs,
  dreach s outs -> dact (dsnd s) = true -> dk (dsnd s) <= cR (drcv s) + 4 ->
  exists s' outs', dclean_rounds (dn (dsnd s) - df (dsnd s)) s outs = Some (s', outs') /\ DInv s' /\
     dact (dsnd s') = false /\ dk (dsnd s') = dk (dsnd s) /\ cR (drcv s') = dk (dsnd s) /\
     (outs' = outs \/ outs' = outs ++ [seq_tags (dk (dsnd s)) (dn (dsnd s))]).
Proof. exact dclean_recovery. Qed.
Print Assumptions C02_downstream_recovery_partial.

(* the premises are met by the initial state and by every state the exactly-once theorem ends in *)
Example C02_nonvacuous :
  (Inv init /\ sact (snd_ init) = false /\ sk (snd_ init) <= rR (rcv_ init) + 3) /\
  (DInv dinit /\ dact (dsnd dinit) = false /\ dk (dsnd dinit) <= cR (drcv dinit) + 3) /\
  (exists s, clean_packets [3; 1; 16] init [] = Some (s, [seq_tags 1 3; seq_tags 2 1; seq_tags 3 16])) /\
  (exists s, dclean_packets [2; 16; 1] dinit [] = Some (s, [seq_tags 1 2; seq_tags 2 16; seq_tags 3 1])).
Proof.
  split; [split; [exact inv_init|split; [reflexivity|cbn; lia]]|].
  split; [split; [exact dinv_init|split; [reflexivity|cbn; lia]]|].
  split; vm_compute; eexists; reflexivity.
Qed.
Print Assumptions C02_nonvacuous.

Theorem C02_client_gives_up_within_4_timeouts :
  forall s, (c_resent s <= 3)%N -> is_sending (timeouts 4 s) = false.
Proof. exact client_gives_up_within_4_timeouts. Qed.
Print Assumptions C02_client_gives_up_within_4_timeouts.

Theorem C02_client_select_timeout_bounded :
  forall s, (0 < c_selecttimeout s)%N ->
  (0 < select_timeout_ms s)%N /\
  (select_timeout_ms s <= N.max (c_ping_soon s) (N.max 1000 (c_selecttimeout s * 1000)))%N.
Proof. exact select_timeout_bounded. Qed.
Print Assumptions C02_client_select_timeout_bounded.

(* the select loop itself (ClientLoop.v, tied to the real client_tunnel() by scripted-select histories): once more than a
   second has passed since the last chunk while a packet is in flight, ANY wake-up of the loop other than a lone datagram --
   the select timeout, a tun packet, a tun packet together with a datagram -- runs the timeout branch: one more
   retransmission is counted, or after the third the packet is given up.  A busy tun device cannot postpone it (D18). *)
Theorem C02_busy_tun_cannot_starve_retransmit :
  forall zc unz L e,
  let s1 := watchdog (l_c L) (lnow e) in
  c_running s1 = true -> is_sending s1 = true -> (l_lastchunk L + 1 < lnow e)%N ->
  match e with LDns _ _ => False | _ => True end ->
  match e with LBoth _ _ _ => reads_tun s1 = true | _ => True end ->
  lstep zc unz L e = lwrap (lnow e) L s1 (timeout s1) /\
  let s' := l_c (fst (lstep zc unz L e)) in
  ((c_resent s1 < 3)%N -> is_sending s' = true /\ c_resent s' = (c_resent s1 + 1)%N) /\
  ((3 <= c_resent s1)%N -> is_sending s' = false /\ c_resent s' = 0%N).
Proof.
  intros zc unz L e s1 H1 H2 H3 H4 H5. split.
  - exact (busy_tun_cannot_starve_retransmit zc unz L e H1 H2 H3 H4 H5).
  - exact (overdue_wakeup_progress zc unz L e H1 H2 H3 H4 H5).
Qed.
Print Assumptions C02_busy_tun_cannot_starve_retransmit.

(* the server's select loop (ServerLoop.v, tied to the real tunnel() by scripted-select histories): back-pressure -- while
   no live session can take another downstream packet the tun device is not read, the iteration is a plain timeout *)
Theorem C02_server_tun_backpressure :
  forall login zc unz c st prev now pkt,
  all_waiting (sweep_clear st prev) prev = true ->
  siter login zc unz c st prev (SLTun now pkt) = siter login zc unz c st prev (SLTimeout now).
Proof. exact siter_backpressure. Qed.
Print Assumptions C02_server_tun_backpressure.

(* ... and only then: as long as some live session can take a packet -- a raw-mode session always can, whatever its ring
   still holds from before it switched to raw mode; a DNS-mode session when its ring is empty -- the iteration reads the
   tun device (the downstream direction cannot wedge while such a session exists) *)
Theorem C02_server_reads_tun_while_someone_can_take :
  forall login zc unz c st prev now pkt i,
  let st0 := sweep_clear st prev in
  (i < length st0)%nat ->
  u_active (getu st0 i) = true -> u_disabled (getu st0 i) = false -> live prev (getu st0 i) = true ->
  (u_conn (getu st0 i) = CONN_RAW \/ (u_conn (getu st0 i) = CONN_DNS /\ u_queue_filled (getu st0 i) = O)) ->
  siter login zc unz c st prev (SLTun now pkt) =
  (let '(st1, o1) := Server.tunnel_tun zc st0 now pkt in
   let '(st2, o2) := sweep_send (length st1) 0 st1 now [] in (st2, o1 ++ o2)).
Proof. intros login zc unz. exact (siter_reads_tun login zc unz). Qed.
Print Assumptions C02_server_reads_tun_while_someone_can_take.
