From Iodine Require Import Tunnel.
Theorem C02_placeholder : True. Proof. exact I. Qed.
Print Assumptions C02_placeholder.
