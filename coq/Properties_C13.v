(* Properties_C13.v -- final statements for property C13: peer-supplied text never reaches a
   shell; only validated numbers do.  Only statements, each closed by [exact]/[apply] of a lemma
   of ShellProofs.v, with Print Assumptions beneath.

   Reading guide.  [login_commands mask_of ifname setip_ok buf] is the list of strings that
   handshake_login passes to system() when the receive buffer holds [buf] (the reply bytes
   followed by anything; C-string semantics are inside the model).  The statements hold
     - for ALL byte lists buf (any length, any bytes, under any downstream encoding: the
       encodings only deliver bytes into that buffer),
     - for ALL local interface names that fit tun.c's if_name[250],
     - for both outcomes of the first system() call ([setip_ok]),
     - for ANY function mask_of from the netmask field to a 32-bit word (the C computes that
       word with shifts that ISO C leaves undefined, see Shell.v).
   Which inet_* checks tun_setip makes and which address it interpolates is read from the
   source by the translator ([src_setip_cfg]); the proofs are generic in that configuration and
   use only [cfg_safe]: every interpolated address is validated by inet_pton.
   Trusted, tied to the code by the correspondence run only: the glibc models of Shell.v
   (sscanf with the login format, inet_pton, inet_addr, inet_ntoa, snprintf %s/%u) and the
   transcription of handshake_login / tun_setip / tun_setmtu (LINUX branch). *)
From Coq Require Import String Ascii.
From Coq Require Import List NArith ZArith Bool Lia ZifyBool ZifyNat ZifyN.
From Iodine Require Import Base Generated.SrcConsts Shell ShellProofs.
From Iodine Require Handshake HandshakeShell.
Import ListNotations.
Local Open Scope N_scope.

(* the format strings, buffer sizes and bounds of the current source are the modelled ones *)
Theorem C13_source_constants :
  src_LOGIN_FMT = str "%64[^-]-%64[^-]-%d-%d" /\
  src_SETIP_FMT = str "PATH=/sbin:/bin ifconfig %s %s %s netmask %s" /\
  src_SETMTU_FMT = str "PATH=/sbin:/bin ifconfig %s mtu %u" /\
  200 <= src_MTU_LO /\ src_MTU_HI <= 1500 /\
  src_IFNAME_SIZE + 87 <= src_SETIP_CMDLINE_SIZE /\ src_IFNAME_SIZE + 35 <= src_SETMTU_CMDLINE_SIZE.
Proof. repeat split; try reflexivity; vm_compute; discriminate. Qed.
Print Assumptions C13_source_constants.

(* in the current source every address that tun_setip puts on the command line has passed
   inet_pton(AF_INET) *)
Theorem C13_interpolated_validated : cfg_safe src_setip_cfg = true.
Proof. exact src_cfg_safe. Qed.
Print Assumptions C13_interpolated_validated.

(* every system() argument is one of the two templates, filled with strict dotted quads
   (validated addresses of the reply -- on LINUX the client address twice --, the netmask
   printed by inet_ntoa) or with the decimal text of an integer in 201..1500 *)
Theorem C13_commands : forall (mask_of : Z -> N) (ifname : list N) (setip_ok : bool) (buf c : list N),
  ifname_fits ifname ->
  In c (login_commands mask_of ifname setip_ok buf) ->
  (exists q1 q2 m, dotted_quad q1 /\ dotted_quad q2 /\ dotted_quad m /\
     c = str "PATH=/sbin:/bin ifconfig " ++ ifname ++ str " " ++ q1 ++ str " " ++ q2 ++ str " netmask " ++ m) \/
  (exists u, 201 <= u <= 1500 /\
     c = str "PATH=/sbin:/bin ifconfig " ++ ifname ++ str " mtu " ++ dec_of_N u).
Proof.
  intros mask_of ifname ok buf c Hif Hin.
  exact (login_step_ok src_setip_cfg mask_of ifname ok buf c src_cfg_safe Hif Hin).
Qed.
Print Assumptions C13_commands.

(* "decimal text": for the admissible numbers the text consists of digits only and reads back
   as the number *)
Theorem C13_mtu_text : forall u, u <= 1500 ->
  dec_value (dec_of_N u) = u /\ forallb is_digit (dec_of_N u) = true.
Proof.
  intros u Hu. split; [|apply dec_of_N_digits].
  assert (H : u < 1501) by lia. exact (proj1 (dec_small_ok u H)).
Qed.
Print Assumptions C13_mtu_text.

(* the same for the whole retry loop of handshake_login (up to 5 attempts, each with a reply
   buffer or none) *)
Theorem C13_commands_session : forall mask_of ifname setip_ok (bufs : list (option (list N))) c,
  ifname_fits ifname ->
  In c (login_session mask_of ifname setip_ok bufs) -> shell_cmd_ok ifname c.
Proof.
  intros mask_of ifname ok bufs c Hif Hin.
  exact (login_session_go_ok src_setip_cfg mask_of ifname ok 5 bufs c src_cfg_safe Hif Hin).
Qed.
Print Assumptions C13_commands_session.

(* byte provenance: a command is a concatenation of fixed template pieces, the local interface
   name, and peer-derived pieces; every byte of a peer-derived piece is a digit or '.', hence
   none of space, tab, newline, quotes, backquote, ; | & $ ( ) < > \ ... *)
Theorem C13_charset : forall mask_of ifname setip_ok buf c,
  ifname_fits ifname ->
  In c (login_commands mask_of ifname setip_ok buf) ->
  exists segs, c = flatten segs /\
    Forall (fun g => match g with
                     | Tpl s => In s [str "PATH=/sbin:/bin ifconfig "; str " "; str " netmask "; str " mtu "]
                     | Loc s => s = ifname
                     | Peer s => Forall (fun b => (is_digit b = true \/ b = 46) /\ ~ In b shell_meta) s
                     end) segs.
Proof.
  intros mask_of ifname ok buf c Hif Hin.
  destruct (shell_cmd_ok_segments ifname c
              (login_step_ok src_setip_cfg mask_of ifname ok buf c src_cfg_safe Hif Hin)) as [segs [E F]].
  exists segs. split; [exact E|].
  eapply Forall_impl; [|exact F]. intros [s|s|s]; simpl; try (intros H; exact H).
  intros H. eapply Forall_impl; [|exact H]. intros b [Hb Hm]. split; [|exact Hm].
  unfold digit_or_dot in Hb. apply Bool.orb_true_iff in Hb. destruct Hb as [Hb|Hb]; [left; exact Hb|right; lia].
Qed.
Print Assumptions C13_charset.

(* the characters named in the property text are in the excluded set *)
Definition listed_meta : list N := str " ""';|$()`&<>" ++ [10; 9; 13; 92].
Theorem C13_meta_listed : Forall (fun ch => In ch shell_meta) listed_meta.
Proof.
  apply Forall_forall. intros ch Hin.
  assert (H : forallb (fun ch => existsb (N.eqb ch) shell_meta) listed_meta = true) by (vm_compute; reflexivity).
  rewrite forallb_forall in H. specialize (H ch Hin). apply existsb_exists in H.
  destruct H as [x [Hx E]]. apply N.eqb_eq in E. subst x. exact Hx.
Qed.
Print Assumptions C13_meta_listed.

(* a reply that does not parse, or whose client-address / server-address field is not a strict
   dotted quad while the source validates that field, produces no command whatsoever.
   (validates_client / validates_server are read from tun_setip: the client address is
   interpolated, so C13_interpolated_validated forces validates_client; the server address is
   not interpolated on LINUX and its validation is not needed for C13_commands.) *)
Definition validates_client : bool := chk_pton_ip src_setip_cfg.
Definition validates_server : bool := chk_pton_other src_setip_cfg.

Theorem C13_reject : forall mask_of ifname setip_ok buf,
  (forall server client mtu netmask,
      parse_login_reply (cstr buf) = Some (server, client, mtu, netmask) ->
      (validates_client = true /\ ~ dotted_quad client) \/ (validates_server = true /\ ~ dotted_quad server)) ->
  login_commands mask_of ifname setip_ok buf = [].
Proof. intros mask_of ifname ok buf H. exact (login_step_reject src_setip_cfg mask_of ifname ok buf H). Qed.
Print Assumptions C13_reject.

(* for the documented netmask range the word used by the correspondence instance is the CIDR
   mask *)
Theorem C13_netmask_cidr : forall nb : Z, (1 <= nb <= 32)%Z ->
  mask_x86 nb = 2 ^ 32 - 2 ^ (32 - Z.to_N nb).
Proof. exact mask_x86_cidr. Qed.
Print Assumptions C13_netmask_cidr.

(* ------------------------------------------------------------------------------------ *)
(* non-vacuity                                                                            *)

(* the configuration of tun_setip after commit 5de9216 *)
Definition fixed_cfg : setip_cfg :=
  {| chk_inet_addr := true; chk_pton_ip := true; chk_pton_other := true; arg1_other := false; arg2_other := false |}.

(* a normal reply produces the two commands (stated for the current source, whatever its
   configuration, and literally for the configuration above) *)
Example C13_example_normal :
  (exists c1 c2, login_commands mask_x86 (str "dns0") true (str "10.0.0.1-10.0.0.2-1130-27") = [c1; c2]) /\
  fst (login_step_g fixed_cfg mask_x86 (str "dns0") true (str "10.0.0.1-10.0.0.2-1130-27")) =
  [str "PATH=/sbin:/bin ifconfig dns0 10.0.0.2 10.0.0.2 netmask 255.255.255.224";
   str "PATH=/sbin:/bin ifconfig dns0 mtu 1130"] /\
  ifname_fits (str "dns0") /\ dotted_quad (str "10.0.0.2") /\ dotted_quad (str "255.255.255.224").
Proof. split; [vm_compute; eauto|]. repeat split; vm_compute; reflexivity. Qed.

(* only the first one when system() fails for it; mtu out of range: no second command *)
Example C13_example_partial :
  fst (login_step_g fixed_cfg mask_x86 (str "dns0") false (str "10.0.0.1-10.0.0.2-1130-27")) =
  [str "PATH=/sbin:/bin ifconfig dns0 10.0.0.2 10.0.0.2 netmask 255.255.255.224"] /\
  fst (login_step_g fixed_cfg mask_x86 (str "dns0") true (str "10.0.0.1-10.0.0.2--1-27")) =
  [str "PATH=/sbin:/bin ifconfig dns0 10.0.0.2 10.0.0.2 netmask 255.255.255.224"].
Proof. split; vm_compute; reflexivity. Qed.

(* hostile replies: the fields are parsed as sent (sscanf lets the text through) and nothing
   at all is executed *)
Example C13_example_hostile :
  parse_login_reply (str "10.0.0.1-10.0.0.2 ;id-1130-27") =
    Some (str "10.0.0.1", str "10.0.0.2 ;id", 1130%Z, 27%Z) /\
  ~ dotted_quad (str "10.0.0.2 ;id") /\
  fst (login_step_g fixed_cfg mask_x86 (str "dns0") true (str "10.0.0.1-10.0.0.2 ;id-1130-27")) = [] /\
  fst (login_step_g fixed_cfg mask_x86 (str "dns0") true (str "10.0.0.1 $(id)-10.0.0.2-1130-27")) = [] /\
  fst (login_step_g fixed_cfg mask_x86 (str "dns0") true (str "10.0.0.1-010.0.0.2-1130-27")) = [] /\
  fst (login_step_g fixed_cfg mask_x86 (str "dns0") true (str "10.0.0.1-10.2-1130-27")) = [].
Proof. repeat split; try (vm_compute; reflexivity). vm_compute. discriminate. Qed.

(* and for the current source: the hostile client address yields nothing as soon as the source
   validates the client address (which C13_interpolated_validated forces on LINUX) *)
Example C13_example_hostile_src : forall mask_of ifname ok,
  validates_client = true ->
  login_commands mask_of ifname ok (str "10.0.0.1-10.0.0.2 ;id-1130-27") = [].
Proof.
  intros mask_of ifname ok Hv. apply C13_reject. intros server client mtu nm Hp.
  vm_compute in Hp. injection Hp as <- <- <- <-. left. split; [exact Hv|].
  vm_compute. discriminate.
Qed.

(* the validation as it was before commit 5de9216 (inet_addr only) lets the text through:
   the strict check is what the theorems rest on *)
Example C13_example_history :
  inet_addr_glibc (str "10.0.0.2 ;id") = Some 167772162 /\
  cfg_safe old_setip_cfg = false /\
  tun_setip_cmd_old mask_x86 (str "dns0") (str "10.0.0.2 ;id") (str "10.0.0.1") 27 =
  Some (str "PATH=/sbin:/bin ifconfig dns0 10.0.0.2 ;id 10.0.0.2 ;id netmask 255.255.255.224").
Proof. repeat split; vm_compute; reflexivity. Qed.

(* ------------------------------------------------------------------------------------------ *)
(* C13_handshake_commands: the statements above are about one reply buffer handed to handshake_login.
   This one is about the whole handshake as the sequencing model runs it (Handshake.v: every step,
   handshake_login inside its retry loop, handshake_raw_udp, client_handshake; tied to the real
   functions by the scripted runs of checks/c06.py, which compare the system() strings too): for EVERY
   script of datagrams and time-outs -- whatever a server, a relay or an off-path sender delivers, in
   any order, fitting or not -- every string logged as an argument of system() by any step satisfies
   shell_cmd_ok (one of the two templates filled with validated dotted quads / an integer in range),
   provided the ones logged before did.  No step other than the login adds a command, and the login adds
   only what Shell.login_step builds from a reply that fits its query. *)
Theorem C13_handshake_commands :
  forall (st : Handshake.stepname) (s : Handshake.hs) (l : list Handshake.item),
    ifname_fits (Handshake.h_ifname s) ->
    Forall (shell_cmd_ok (Handshake.h_ifname s)) (Handshake.h_sys s) ->
    let s' := snd (fst (Handshake.run_step st s l)) in
    Handshake.h_ifname s' = Handshake.h_ifname s /\
    Forall (shell_cmd_ok (Handshake.h_ifname s)) (Handshake.h_sys s').
Proof.
  intros st s l H1 H2.
  exact (HandshakeShell.step_commands_ok_named st s l (conj H1 H2)).
Qed.
Print Assumptions C13_handshake_commands.
