From Iodine Require Import DnsWf.
Theorem C10_placeholder : True. Proof. exact I. Qed.
Print Assumptions C10_placeholder.
