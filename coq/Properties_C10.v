(* Properties_C10.v -- C10: every DNS message emitted is a well-formed RFC 1035 message and
   answers echo their question.  Specification = the independent strict parser DnsWf.wf_msg;
   emitters = DnsMsg.dns_encode_query / write_dns / aux_answer (validated against the C by
   checks/c10.py).  Only final theorems here; proofs are in DnsWfProofs.v / DnsEmitProofs.v /
   DnsAnswerProofs.v. *)
From Coq Require Import List NArith Arith Bool Lia.
From Iodine Require Import Base Codec Hostname DnsName DnsMsg DnsWf DnsWfProofs DnsEmitProofs DnsNameencProofs DnsAnswerProofs DnsMxProofs DnsAuxProofs C10Examples.
Import ListNotations.
Local Open Scope N_scope.

(* the quantifier:  label_ok l  :=  1 <= length l <= 63, no '.' (46), no NUL;
                    wf_labels ls :=  Forall label_ok ls /\ wire_len ls <= 255;
                    name_of ls   :=  the labels joined with dots (iodine's C-string form) *)

(* ---- C10_query_wf: every query the client's encoder builds for a legal name -------------- *)

Theorem C10_query_wf : forall ls id ty (edns0 : bool), wf_labels ls -> id < 65536 -> ty < 65536 ->
  exists m msg,
    dns_encode_query 4096 edns0 id ty (name_of ls) = Some m /\ wf_msg m = Some msg /\
    m_id msg = id /\ m_qr msg = false /\ m_qname msg = ls /\ m_qtype msg = ty /\ m_qclass msg = 1 /\
    m_answers msg = [] /\ m_authority msg = [] /\
    (if edns0
     then exists r, m_additional msg = [r] /\ rr_type r = 41 /\ rr_name r = [] /\ rr_rdata r = []
     else m_additional msg = []).
Proof.
  intros ls id ty edns0 [Hok Hw] Hid Hty.
  eexists. eexists. split; [apply (query_form 4096 edns0 id ty ls Hok Hw); lia|].
  split; [apply (query_wf edns0 id ty ls Hok Hw Hid Hty)|].
  cbn [m_id m_qr m_qname m_qtype m_qclass m_answers m_authority m_additional].
  repeat split; try reflexivity.
  destruct edns0; [|reflexivity]. exists opt_rr. repeat split; reflexivity.
Qed.
Print Assumptions C10_query_wf.


(* ---- C10_answer_wf: every answer write_dns emits ------------------------------------------ *)

(* answer_ok q ls msg  :=  id = q_id, QR set, question = (ls, q_type, IN), no authority/additional,
                           >= 1 answer, every answer: owner = ls (through the 0xC00C pointer),
                           type = q_type (CNAME for an A question), class IN, rec_ok;
   rec_ok r            :=  CNAME/MX/SRV: rdname parses, labels 1..57 bytes, <= 255 on the wire;
                           TXT: RDATA non-empty and tiled by its length-prefixed strings.
   (RDLENGTH = actual data size and the section counts are part of wf_msg's acceptance.) *)

Theorem C10_answer_wf : forall ls q p downenc td,
  wf_labels ls -> ls <> [] -> q_name q = name_of ls -> q_id q < 65536 ->
  (q_type q = T_NULL \/ q_type q = T_PRIVATE \/ q_type q = T_TXT \/ q_type q = T_CNAME \/ q_type q = T_A \/
   q_type q = T_MX \/ q_type q = T_SRV) ->
  (length p <= 4098)%nat ->
  exists m td' msg, write_dns q p downenc td = (Some m, td') /\ wf_msg m = Some msg /\ answer_ok q ls msg.
Proof.
  intros ls q p downenc td Hwf Hne Hn Hid Hty Hp.
  destruct t_private_facts as [Hlt [Hop1 Hop2]].
  destruct Hty as [Hty|[Hty|[Hty|[Hty|[Hty|Hty]]]]].
  - apply answer_wf_opaque; try assumption; rewrite Hty; [unfold T_NULL; lia|exact Hop2].
  - apply answer_wf_opaque; try assumption; rewrite Hty; assumption.
  - apply answer_wf_txt; assumption.
  - apply answer_wf_cname; try assumption. left; exact Hty.
  - apply answer_wf_cname; try assumption. right; exact Hty.
  - apply answer_wf_mx; assumption.
Qed.
Print Assumptions C10_answer_wf.

(* the payload is arbitrary: no bytes_ok hypothesis is needed (NUL and '.' bytes of the payload
   never reach a name; raw types carry them opaquely) *)



(* the elements of a TXT record are bytes when the payload is: in particular every string-length
   byte of puttxtbin is a byte (src_TXT_CHUNK = 252 < 256, the length byte does not wrap) *)
Theorem C10_txt_bytes : forall ls q p downenc td,
  wf_labels ls -> ls <> [] -> q_name q = name_of ls -> q_id q < 65536 -> q_type q = T_TXT ->
  (length p <= 4098)%nat -> bytes_ok p ->
  exists m td' msg, write_dns q p downenc td = (Some m, td') /\ wf_msg m = Some msg /\
                    exists r, m_answers msg = [r] /\ bytes_ok (rr_rdata r) /\ rr_type r = T_TXT.
Proof. intros ls q p downenc td H1 H2 H3 H4 H5 H6 H7. exact (answer_txt_bytes q ls p downenc td H3 H1 H2 H4 H5 H6 H7). Qed.
Print Assumptions C10_txt_bytes.

(* ---- C10_ns / C10_a: the non-tunnel answers of tunnel_dns ----------------------------------- *)

(* q_name = pre ++ d with pre = prefix_of lp (every label of lp followed by '.', so pre is empty or
   ends in '.'), d = name_of ld the matched domain, dl = length pre: the dispatch conditions of
   aux_answer / dns_encode_ns_response.  eff_dest dest ns_ip = the address used (-n ns_ip if set,
   else the IPv4 destination of the query, else none).  wire_len ld <= 252 says "ns." ++ d is
   still a legal name (tunnel domains have at most 128 characters). *)
Theorem C10_ns : forall lp ld q dest ns_ip,
  wf_labels (lp ++ ld) -> ld <> [] -> (wire_len ld <= 252)%nat ->
  q_name q = prefix_of lp ++ name_of ld -> q_type q = T_NS -> q_id q < 65536 ->
  (match eff_dest dest ns_ip with Some ip => length ip = 4%nat | None => True end) ->
  exists m msg,
    aux_answer q (length (prefix_of lp)) dest ns_ip = Some m /\ wf_msg m = Some msg /\
    m_id msg = q_id q /\ m_qr msg = true /\ m_qname msg = lp ++ ld /\ m_qtype msg = T_NS /\ m_qclass msg = 1 /\
    m_authority msg = [] /\
    (exists r, m_answers msg = [r] /\ rr_name r = lp ++ ld /\ rr_type r = T_NS /\ rr_class r = 1 /\
               rr_rdname r = Some ([110; 115] :: ld)) /\
    match eff_dest dest ns_ip with
    | Some ip => exists a, m_additional msg = [a] /\ rr_name a = [110; 115] :: ld /\ rr_type a = T_A /\ rr_class a = 1 /\
                           rr_rdata a = ip
    | None => m_additional msg = []
    end.
Proof.
  intros lp ld q dest ns_ip Hwf Hne Hwd Hn Hty Hid Hip.
  destruct (ns_answer_wf q lp ld dest ns_ip Hwf Hne Hwd Hn Hty Hid Hip) as [m [msg [H1 [H2 H3]]]].
  exists m, msg. split; [exact H1|]. split; [exact H2|]. exact H3.
Qed.
Print Assumptions C10_ns.



Theorem C10_a : forall (lbl : list N) ls q dl dest ns_ip ip,
  wf_labels (lbl :: ls) -> ls <> [] -> q_name q = name_of (lbl :: ls) -> q_id q < 65536 -> q_type q = T_A ->
  length ip = 4%nat ->
  ((map lc lbl = [110; 115] /\ dl = 3%nat /\ eff_dest dest ns_ip = Some ip) \/          (* "ns." ++ d, any case *)
   (map lc lbl = [119; 119; 119] /\ dl = 4%nat /\ ip = [127; 0; 0; 1])) ->               (* "www." ++ d: 127.0.0.1 *)
  exists m msg,
    aux_answer q dl dest ns_ip = Some m /\ wf_msg m = Some msg /\
    m_id msg = q_id q /\ m_qr msg = true /\ m_qname msg = lbl :: ls /\ m_qtype msg = T_A /\ m_qclass msg = 1 /\
    m_authority msg = [] /\ m_additional msg = [] /\
    exists r, m_answers msg = [r] /\ rr_name r = lbl :: ls /\ rr_type r = T_A /\ rr_class r = 1 /\ rr_rdata r = ip.
Proof.
  intros lbl ls q dl dest ns_ip ip Hwf Hne Hn Hid Hty Hip Hcase.
  destruct (a_answer_wf q lbl ls dl dest ns_ip ip Hwf Hne Hn Hid Hty Hip Hcase) as [m [msg [H1 [H2 H3]]]].
  exists m, msg. split; [exact H1|]. split; [exact H2|]. exact H3.
Qed.
Print Assumptions C10_a.


(* non-vacuity examples of the four theorems (hypotheses satisfiable on non-trivial values, with the
   emitted message computed and parsed) are in C10Examples.v: C10_query_wf_example, C10_answer_wf_example,
   C10_answer_root_not_wf, C10_ns_example, C10_ns_long_domain_not_wf, C10_a_example. *)

(* ---- C10_spec_rejects: the specification parser is not vacuous ---------------------------- *)

(* helper: header (id 7, QR|AA, 1 question, an answers), question "ab.t.example.com" type ty *)
Definition ex_q (ty an : N) : list N :=
  [0; 7; 132; 0; 0; 1; 0; an; 0; 0; 0; 0] ++
  [2; 97; 98; 1; 116; 7; 101; 120; 97; 109; 112; 108; 101; 3; 99; 111; 109; 0] ++ [0; ty; 0; 1].
Definition ex_rr (o1 o2 ty rdlen : N) (rdata : list N) : list N := [o1; o2; 0; ty; 0; 1; 0; 0; 0; 0; 0; rdlen] ++ rdata.

(* accepted: an RFC 1035 4.1.4 style message -- CNAME whose RDATA is a label followed by a
   pointer to the label "t" of the question name (offset 15) *)
Example C10_spec_accepts_pointer :
  option_map (fun m => (m_qname m, map rr_name (m_answers m), map rr_rdname (m_answers m)))
    (wf_msg (ex_q 5 1 ++ ex_rr 192 12 5 6 [3; 119; 119; 119; 192; 15])) =
  Some ([[97; 98]; [116]; [101; 120; 97; 109; 112; 108; 101]; [99; 111; 109]],
        [[[97; 98]; [116]; [101; 120; 97; 109; 112; 108; 101]; [99; 111; 109]]],
        [Some [[119; 119; 119]; [116]; [101; 120; 97; 109; 112; 108; 101]; [99; 111; 109]]]).
Proof. vm_compute. reflexivity. Qed.

Example C10_spec_accepts_null : wf_msgb (ex_q 10 1 ++ ex_rr 192 12 10 3 [1; 2; 3]) = true.
Proof. vm_compute. reflexivity. Qed.
Example C10_spec_rejects_count : wf_msg (ex_q 10 2 ++ ex_rr 192 12 10 3 [1; 2; 3]) = None.
Proof. vm_compute. reflexivity. Qed.
Example C10_spec_rejects_trailing : wf_msg (ex_q 10 1 ++ ex_rr 192 12 10 3 [1; 2; 3] ++ [0]) = None.
Proof. vm_compute. reflexivity. Qed.
Example C10_spec_rejects_forward_pointer : wf_msg (ex_q 10 1 ++ ex_rr 192 48 10 3 [1; 2; 3]) = None.
Proof. vm_compute. reflexivity. Qed.
Example C10_spec_rejects_mid_label_pointer : wf_msg (ex_q 10 1 ++ ex_rr 192 13 10 3 [1; 2; 3]) = None.
Proof. vm_compute. reflexivity. Qed.
Example C10_spec_rejects_ns_pointer_off_by_one :
  wf_msg (ex_q 2 1 ++ ex_rr 192 12 2 5 [2; 110; 115; 192; 16]) = None /\
  wf_msgb (ex_q 2 1 ++ ex_rr 192 12 2 5 [2; 110; 115; 192; 15]) = true.
Proof. split; vm_compute; reflexivity. Qed.
Example C10_spec_rejects_label_64 :
  wf_msg ([0; 7; 1; 0; 0; 1; 0; 0; 0; 0; 0; 0] ++ 64 :: repeat 97 64 ++ [0; 0; 10; 0; 1]) = None.
Proof. vm_compute. reflexivity. Qed.
Example C10_spec_rejects_name_256 :
  wf_msg ([0; 7; 1; 0; 0; 1; 0; 0; 0; 0; 0; 0] ++ 63 :: repeat 97 63 ++ 63 :: repeat 98 63 ++ 63 :: repeat 99 63 ++
          62 :: repeat 100 62 ++ [0; 0; 10; 0; 1]) = None /\
  wf_msgb ([0; 7; 1; 0; 0; 1; 0; 0; 0; 0; 0; 0] ++ 63 :: repeat 97 63 ++ 63 :: repeat 98 63 ++ 63 :: repeat 99 63 ++
          61 :: repeat 100 61 ++ [0; 0; 10; 0; 1]) = true.
Proof. split; vm_compute; reflexivity. Qed.
Example C10_spec_rejects_rdlength :
  wf_msg (ex_q 16 1 ++ ex_rr 192 12 16 7 [3; 97; 98; 99; 1; 122]) = None /\       (* TXT, RDLENGTH + 1 *)
  wf_msg (ex_q 16 1 ++ ex_rr 192 12 16 5 [3; 97; 98; 99; 1; 122]) = None /\       (* TXT, RDLENGTH - 1 *)
  wf_msgb (ex_q 16 1 ++ ex_rr 192 12 16 6 [3; 97; 98; 99; 1; 122]) = true /\
  wf_msg (ex_q 5 1 ++ ex_rr 192 12 5 8 [2; 104; 49; 2; 120; 121; 0]) = None /\   (* CNAME, RDLENGTH + 1 *)
  wf_msg (ex_q 5 1 ++ ex_rr 192 12 5 6 [2; 104; 49; 2; 120; 121; 0]) = None /\
  wf_msgb (ex_q 5 1 ++ ex_rr 192 12 5 7 [2; 104; 49; 2; 120; 121; 0]) = true /\
  wf_msg (ex_q 15 1 ++ ex_rr 192 12 15 10 [0; 10; 2; 104; 49; 2; 120; 121; 0]) = None /\   (* MX *)
  wf_msgb (ex_q 15 1 ++ ex_rr 192 12 15 9 [0; 10; 2; 104; 49; 2; 120; 121; 0]) = true /\
  wf_msg (ex_q 33 1 ++ ex_rr 192 12 33 12 [0; 10; 0; 10; 19; 196; 2; 104; 49; 2; 120; 121; 0]) = None /\   (* SRV *)
  wf_msgb (ex_q 33 1 ++ ex_rr 192 12 33 13 [0; 10; 0; 10; 19; 196; 2; 104; 49; 2; 120; 121; 0]) = true /\
  wf_msg (ex_q 1 1 ++ ex_rr 192 12 1 5 [127; 0; 0; 1; 0]) = None /\               (* A with 5 bytes *)
  wf_msg (ex_q 10 1 ++ ex_rr 192 12 10 4 [1; 2; 3]) = None /\                     (* NULL, RDLENGTH + 1 *)
  wf_msg (ex_q 10 1 ++ ex_rr 192 12 10 2 [1; 2; 3]) = None.                       (* NULL, RDLENGTH - 1 *)
Proof. repeat split; vm_compute; reflexivity. Qed.
Example C10_spec_rejects_txt_not_tiled :
  wf_msg (ex_q 16 1 ++ ex_rr 192 12 16 6 [3; 97; 98; 99; 5; 122]) = None /\
  wf_msg (ex_q 16 1 ++ ex_rr 192 12 16 0 []) = None.
Proof. split; vm_compute; reflexivity. Qed.
