(* DnsMsgProofs_MxClient.v -- C09 for MX and SRV answers, client side: the record loop of
   dns_decode (names[pref/10-1]), the output loop, and the reassembly loop of read_dns_withq with
   its strlen(buf) quirk. *)
From Coq Require Import List NArith ZArith Arith Bool Lia ZifyBool ZifyNat ZifyN.
From Iodine Require Import Generated.SrcConsts Base Codec CodecProofs Hostname DnsName DnsWf DnsMsg
  DnsMsgProofs_Base DnsMsgProofs_Null DnsMsgProofs_Dotify DnsMsgProofs_Name DnsMsgProofs_Mx.
Import ListNotations.
Local Open Scope N_scope.

Ltac Zify.zify_post_hook ::= Z.div_mod_to_equations.

(* ---- the names[250][256] array -------------------------------------------------------------- *)

Definition zeros : list N := repeat 0 name_size.
Definition pad (nm : list N) : list N := firstn (name_size - 1) (overlay (nm ++ [0]) zeros) ++ [0].
Definition names_of (done : list (list N)) : list (list N) :=
  map pad done ++ repeat zeros (250 - length done).

Lemma cstr_zeros : cstr zeros = [].
Proof. reflexivity. Qed.

Lemma cstr_pad nm : Forall (fun ch => ch <> 0) nm -> (length nm <= 253)%nat -> cstr (pad nm) = nm.
Proof.
  intros Hz Hl. unfold pad, overlay. rewrite <- app_assoc. cbn [app].
  assert (Hf : exists t, firstn (name_size - 1) (nm ++ 0 :: skipn (length (nm ++ [0])) zeros) = nm ++ 0 :: t).
  { rewrite firstn_app. rewrite firstn_all2 by (rewrite name_size_eq; lia).
    replace (name_size - 1 - length nm)%nat with (S (254 - length nm)) by (rewrite name_size_eq; lia).
    cbn [firstn]. eexists. reflexivity. }
  destruct Hf as [t Ht]. rewrite Ht. rewrite <- app_assoc. cbn [app]. apply cstr_app_nul, Hz.
Qed.

Lemma names_update done nm : (length done < 250)%nat ->
  let names := names_of done in
  let idx := length done in
  firstn idx names ++ (firstn (name_size - 1) (overlay (nm ++ [0]) (nth idx names [])) ++ [0]) :: skipn (S idx) names =
  names_of (done ++ [nm]).
Proof.
  intros Hl names idx. unfold names, idx, names_of.
  assert (Hm : length (map pad done) = length done) by apply map_length.
  rewrite firstn_app_len' by (symmetry; exact Hm).
  rewrite app_nth2 by lia. rewrite Hm, Nat.sub_diag.
  replace (250 - length done)%nat with (S (250 - length (done ++ [nm]))) by (rewrite app_length; cbn [length]; lia).
  cbn [repeat nth]. fold (pad nm).
  rewrite skipn_app. rewrite skipn_all2 by lia. rewrite Hm.
  replace (S (length done) - length done)%nat with 1%nat by lia. cbn [skipn app].
  rewrite map_app. cbn [map]. rewrite <- app_assoc. reflexivity.
Qed.

(* ---- reading one answer record ---------------------------------------------------------------- *)

Lemma ty_mx_lt ty : ty = T_MX \/ ty = T_SRV -> ty < 65536.
Proof. intros [-> | ->]; vm_compute; reflexivity. Qed.

Lemma skipn_more {A} (buf x y : list A) a : skipn a buf = x ++ y -> skipn (a + length x) buf = y.
Proof.
  intros H. assert (Hadd : forall (l : list A) a b, skipn (a + b) l = skipn b (skipn a l)).
  { intros l a0. revert l. induction a0 as [|a0 IH]; intros l b; [reflexivity|].
    destruct l; [destruct b; reflexivity|]. cbn [Nat.add skipn]. apply IH. }
  rewrite Hadd, H. apply skipn_app_len.
Qed.

Lemma mx_decode_loop_spec ty wls : ty = T_MX \/ ty = T_SRV -> forall PRE done ty0,
  Forall wl_ok wls -> (length done + length wls <= 249)%nat -> (12 < length PRE)%nat ->
  let buf := PRE ++ mx_recs ty (S (length done)) wls in
  mx_decode_loop buf (length buf) (length wls) (length PRE) ty0 (names_of done) =
  Some (names_of (done ++ map dotted wls), match wls with [] => ty0 | _ => ty end).
Proof.
  intros Hty. pose proof (ty_mx_lt ty Hty) as Htl.
  induction wls as [|wl r IH]; intros PRE done ty0 Hok Hcnt Hpre buf.
  - cbn [length mx_decode_loop map]. rewrite app_nil_r. reflexivity.
  - apply Forall_cons_iff in Hok. destruct Hok as [[Hl [Hne Hdl]] Hr]. cbn [length] in Hcnt.
    set (j := S (length done)) in *.
    assert (Hbuf : buf = PRE ++ rr_head ty ++ be16 (N.of_nat (length (mx_body ty j wl))) ++
                         (mx_body ty j wl ++ mx_recs ty (S j) r)).
    { unfold buf. cbn [mx_recs]. unfold mx_rec. rewrite <- !app_assoc. reflexivity. }
    pose proof (mx_body_len ty j wl) as Hbl. pose proof (srv_bytes_len ty) as Hsl.
    pose proof (dotted_wire_len wl Hne) as Hwl.
    destruct (rr_bytes buf PRE ty (N.of_nat (length (mx_body ty j wl))) _ Hbuf Htl ltac:(lia))
      as [B0 [B1 [B2 [B3 [B4 B5]]]]].
    set (data := length PRE) in *. rewrite app_length in B5.
    cbn [length mx_decode_loop]. cbv zeta.
    rewrite adv_ptr by (assumption || lia).
    destruct (length buf <? 12 + (data + 2))%nat eqn:E1; [apply Nat.ltb_lt in E1; lia|].
    rewrite B2, B3, Nat2N.id.
    assert (Hpref : readshort buf (data + 2 + 10) = 10 * N.of_nat j).
    { rewrite readshort_skipn, B4. unfold mx_body. rewrite <- !app_assoc. apply readshort_be16. lia. }
    rewrite Hpref.
    assert (Hd3 : (if ty =? T_SRV then (data + 2 + 10 + 2 + 4)%nat else (data + 2 + 10 + 2)%nat) =
                  (data + 2 + 10 + (2 + length (srv_bytes ty)))%nat).
    { unfold srv_bytes. destruct (ty =? T_SRV); cbn [length app be16]; lia. }
    rewrite Hd3.
    assert (E2 : (ty =? T_SRV) && (length buf <? data + 2 + 10 + (2 + length (srv_bytes ty)))%nat = false).
    { destruct (length buf <? data + 2 + 10 + (2 + length (srv_bytes ty)))%nat eqn:E; [apply Nat.ltb_lt in E; lia|].
      apply andb_false_r. }
    rewrite E2.
    assert (Hchk : ((10 * N.of_nat j) mod 10 =? 0) && (10 <=? 10 * N.of_nat j) && (10 * N.of_nat j <? 2500) = true).
    { unfold j. repeat (apply andb_true_intro; split); [apply N.eqb_eq|apply N.leb_le|apply N.ltb_lt]; lia. }
    rewrite Hchk.
    assert (Hidx : N.to_nat (10 * N.of_nat j / 10 - 1) = length done) by (unfold j; lia).
    rewrite Hidx.
    assert (Hsk : skipn (data + 2 + 10 + (2 + length (srv_bytes ty))) buf = wire wl ++ mx_recs ty (S j) r).
    { apply skipn_more with (x := be16 (10 * N.of_nat j) ++ srv_bytes ty).
      rewrite B4. unfold mx_body. rewrite <- !app_assoc. reflexivity. }
    assert (Hrn : readname buf (length buf) (data + 2 + 10 + (2 + length (srv_bytes ty))) (name_size - 1) =
                  {| rn_ret := S (length (dotted wl)); rn_wr := dotted wl ++ [0];
                     rn_src := Some (data + 2 + 10 + (2 + length (srv_bytes ty)) + wire_len wl)%nat |}).
    { apply readname_wire; [exact Hl| |lia|rewrite name_size_eq; lia].
      apply (holds_skipn _ _ _ _ Hsk). }
    rewrite Hrn. cbn [rn_wr].
    rewrite (names_update done (dotted wl)) by lia.
    destruct (length buf <? data + 2 + 10 + length (mx_body ty j wl))%nat eqn:E3; [apply Nat.ltb_lt in E3; lia|].
    (* the next record starts where this one ends *)
    assert (Hnext : (data + 2 + 10 + length (mx_body ty j wl))%nat = length (PRE ++ mx_rec ty j wl)).
    { rewrite app_length, mx_rec_len. unfold data. lia. }
    rewrite Hnext.
    assert (Hbuf2 : buf = (PRE ++ mx_rec ty j wl) ++ mx_recs ty (S (length (done ++ [dotted wl]))) r).
    { unfold buf. cbn [mx_recs]. rewrite <- app_assoc. rewrite app_length. cbn [length].
      replace (length done + 1)%nat with (S (length done)) by lia. reflexivity. }
    rewrite Hbuf2.
    rewrite IH; [| exact Hr | rewrite app_length; cbn [length]; lia | rewrite app_length; lia].
    rewrite <- app_assoc. cbn [app map]. f_equal. f_equal. destruct r; reflexivity.
Qed.

(* ---- the output loop of dns_decode --------------------------------------------------------------- *)

Definition oname_ok (nm : list N) : Prop := nm <> [] /\ Forall (fun ch => ch <> 0) nm /\ (length nm <= 253)%nat.

Lemma mx_output_spec buflen nms : forall offset acc rest,
  Forall oname_ok nms ->
  match rest with [] => True | nb :: _ => cstr nb = [] end ->
  (offset + length (flat nms) + 2 <= buflen)%nat ->
  mx_output (map pad nms ++ rest) buflen offset acc = (acc ++ flat nms ++ [0], (offset + length (flat nms))%nat).
Proof.
  induction nms as [|nm r IH]; intros offset acc rest Hok Hrest Hfit.
  - cbn [map app flat concat length]. rewrite Nat.add_0_r.
    destruct rest as [|nb rest']; [reflexivity|]. cbn [mx_output]. rewrite Hrest. reflexivity.
  - apply Forall_cons_iff in Hok. destruct Hok as [[Hne [Hz Hl]] Hr].
    cbn [map app mx_output]. rewrite (cstr_pad nm Hz Hl).
    rewrite flat_cons in Hfit |- *. rewrite app_length in Hfit |- *. cbn [length] in Hfit |- *.
    destruct nm as [|c nm']; [congruence|]. set (nm := c :: nm') in *.
    assert (Hmin : Z.min (Z.of_nat (length nm)) (Z.of_nat buflen - Z.of_nat offset - 2) = Z.of_nat (length nm)) by lia.
    rewrite Hmin.
    destruct (Z.of_nat (length nm) <=? 0)%Z eqn:E; [unfold nm in E; cbn [length] in E; lia|].
    rewrite Nat2Z.id, firstn_all.
    rewrite IH; [|exact Hr|exact Hrest|lia].
    rewrite <- !app_assoc. cbn [app]. f_equal. lia.
Qed.

(* ---- the reassembly loop of read_dns_withq --------------------------------------------------------- *)

Lemma st_piece_nonempty e st : fst st <> [] -> st_piece e st <> [].
Proof.
  intros Hne. unfold st_piece. destruct (host_used_pos e (fst st) Hne) as [Hu _].
  destruct (fst st) as [|x l]; [congruence|]. destruct (host_used e (x :: l)); [lia|]. discriminate.
Qed.

Lemma cstr_prefix_nul s t : Forall (fun ch => ch <> 0) s -> cstr (s ++ 0 :: t) = s.
Proof. apply cstr_app_nul. Qed.

Lemma mx_namedec_spec e B l1 out front : forall lst pre acc fuel,
  out = pre ++ flat (map (st_name e) (front ++ [lst])) ++ [0] ->
  length (cstr out) = l1 ->
  (forall st, In st front -> length (st_name e st) = l1) ->
  (length (st_name e lst) <= l1)%nat ->
  (forall st, In st (front ++ [lst]) -> bytes_ok (fst st) /\ fst st <> []) ->
  (length acc + length (concat (map (st_piece e) (front ++ [lst]))) + 246 <= B)%nat ->
  (length (front ++ [lst]) < fuel)%nat ->
  mx_namedec_loop fuel out (length pre + length (flat (map (st_name e) (front ++ [lst])))) (length pre) B acc =
  acc ++ concat (map (st_piece e) (front ++ [lst])).
Proof.
  induction front as [|st front IH]; intros lst pre acc fuel Hout Hl1 Hfront Hlast Hsts Hspace Hfuel.
  - (* the last name: its length, or one more (the quirk) *)
    cbn [app map] in *. rewrite flat_cons in *. cbn [flat map concat] in *. rewrite app_nil_r in *.
    destruct fuel as [|fuel]; [cbn [length] in Hfuel; lia|].
    destruct (Hsts lst (or_introl eq_refl)) as [Hb Hne].
    set (nm := st_name e lst) in *.
    cbn [mx_namedec_loop]. rewrite Hl1. rewrite app_length in *. cbn [length] in *.
    set (tp := Z.min (Z.of_nat l1) (Z.of_nat (length pre + (length nm + 1)) - Z.of_nat (length pre))).
    assert (Htp : Z.to_nat tp = length nm \/ Z.to_nat tp = S (length nm)) by lia.
    assert (Hnm5 : (5 <= length nm)%nat).
    { unfold nm, st_name. destruct (host_used_pos e (fst lst) Hne) as [_ H2]. rewrite host_name_len. lia. }
    destruct (tp <=? 0)%Z eqn:E1; [lia|].
    destruct (B - length acc <=? 0)%nat eqn:E2; [apply Nat.leb_le in E2; lia|]. cbn [orb].
    assert (Hsk : skipn (length pre) out = nm ++ [0; 0]).
    { rewrite Hout. rewrite skipn_app_len. rewrite <- app_assoc. reflexivity. }
    rewrite Hsk. unfold nm, st_name.
    rewrite namedec_host; [|exact Hb|exact Hne|lia|exact Htp].
    fold (st_piece e lst). fold (st_name e lst). fold nm.
    pose proof (st_piece_nonempty e lst Hne) as Hpne.
    destruct (st_piece e lst) as [|x piece] eqn:Ep; [congruence|].
    destruct fuel as [|fuel]; [reflexivity|].
    cbn [mx_namedec_loop]. rewrite Hl1.
    match goal with |- context [(?t <=? 0)%Z || _] => assert (Ht : (t <=? 0)%Z = true) by lia; rewrite Ht end.
    reflexivity.
  - (* a name that is not the last one has the length of the first *)
    cbn [app map] in *. rewrite flat_cons in *.
    destruct fuel as [|fuel]; [cbn [length] in Hfuel; lia|].
    destruct (Hsts st (or_introl eq_refl)) as [Hb Hne].
    pose proof (Hfront st (or_introl eq_refl)) as Hlen.
    set (nm := st_name e st) in *.
    set (restflat := flat (map (st_name e) (front ++ [lst]))) in *.
    cbn [mx_namedec_loop]. rewrite Hl1. rewrite app_length in *. cbn [length] in *.
    cbn [concat] in *. rewrite app_length in Hspace.
    set (tp := Z.min (Z.of_nat l1) (Z.of_nat (length pre + (length nm + S (length restflat))) - Z.of_nat (length pre))).
    assert (Htp : Z.to_nat tp = length nm) by lia.
    assert (Hnm5 : (5 <= length nm)%nat).
    { unfold nm, st_name. destruct (host_used_pos e (fst st) Hne) as [_ H2]. rewrite host_name_len. lia. }
    destruct (tp <=? 0)%Z eqn:E1; [lia|].
    destruct (B - length acc <=? 0)%nat eqn:E2; [apply Nat.leb_le in E2; lia|]. cbn [orb].
    assert (Hsk : skipn (length pre) out = nm ++ (0 :: restflat ++ [0])).
    { rewrite Hout. rewrite skipn_app_len. rewrite <- app_assoc. reflexivity. }
    rewrite Hsk.
    assert (Hdec : dns_namedec (B - length acc) (nm ++ 0 :: restflat ++ [0]) (Z.to_nat tp) = st_piece e st).
    { unfold nm, st_name. apply namedec_host; [exact Hb|exact Hne|lia|left; exact Htp]. }
    rewrite !Hdec.
    pose proof (st_piece_nonempty e st Hne) as Hpne.
    destruct (st_piece e st) as [|x piece] eqn:Ep; [congruence|].
    rewrite Htp.
    replace (length pre + length nm + 1)%nat with (length (pre ++ nm ++ [0])) by (rewrite !app_length; cbn [length]; lia).
    replace (length pre + (length nm + S (length restflat)))%nat
      with (length (pre ++ nm ++ [0%N]) + length restflat)%nat by (rewrite !app_length; cbn [length]; lia).
    unfold restflat.
    rewrite (IH lst (pre ++ nm ++ [0]) (acc ++ x :: piece) fuel).
    + rewrite <- app_assoc. reflexivity.
    + rewrite Hout. rewrite <- !app_assoc. reflexivity.
    + exact Hl1.
    + intros st' Hin. apply Hfront. right. exact Hin.
    + exact Hlast.
    + intros st' Hin. apply Hsts. right. exact Hin.
    + rewrite app_length. cbn [length] in *. lia.
    + cbn [length] in Hfuel. lia.
Qed.

(* ---- assembling the MX / SRV path --------------------------------------------------------------- *)

(* the client buffer holds the whole name list: 254 bytes per name, one name per 153 payload
   bytes (the smallest capacity, Base32) *)
Definition mx_fits (n buflen : nat) : Prop := (254 * (n / 153 + 1) + 2 <= buflen)%nat.

Lemma write_dns_mx q p downenc td : q_type q = T_MX \/ q_type q = T_SRV ->
  fst (write_dns q p downenc td) =
  dns_encode_answer buf64k q (fst (mx_build (S (length p)) p downenc td [])).
Proof.
  intros Hty. unfold write_dns.
  assert (Ht : (q_type q =? T_CNAME) || (q_type q =? T_A) = false /\ (q_type q =? T_MX) || (q_type q =? T_SRV) = true).
  { destruct Hty as [-> | ->]; split; vm_compute; reflexivity. }
  destruct Ht as [-> ->]. destruct (mx_build (S (length p)) p downenc td []) as [mx td']. reflexivity.
Qed.

Lemma mx_states_ok e fuel : forall data td, bytes_ok data -> data <> [] -> (length data < fuel)%nat ->
  Forall (fun st => bytes_ok (fst st) /\ fst st <> []) (mx_states fuel e data td).
Proof.
  induction fuel as [|fuel IH]; intros data td Hb Hne Hf; [lia|].
  cbn [mx_states]. pose proof (host_used_le e data) as Hle.
  destruct (host_used_pos e data Hne) as [Hu _].
  destruct (length data <=? host_used e data)%nat eqn:E.
  - constructor; [split; assumption|constructor].
  - apply Nat.leb_gt in E. constructor; [split; assumption|].
    apply IH; [apply bytes_ok_skipn, Hb| |rewrite skipn_length; lia].
    intros Hs. apply (f_equal (@length N)) in Hs. rewrite skipn_length in Hs. simpl in Hs. lia.
Qed.

Lemma st_name_len e st :
  length (st_name e st) =
  (S (enclen (cbits (host_codec e)) (host_used e (fst st))) + enclen (cbits (host_codec e)) (host_used e (fst st)) / 57 + 3)%nat.
Proof. unfold st_name. rewrite host_name_len, host_enc_len. reflexivity. Qed.

Lemma st_name_labels e st : st_name e st = dotted (st_labels e st).
Proof. reflexivity. Qed.

Lemma st_labels_ok e st : wl_ok (st_labels e st).
Proof. unfold wl_ok, st_labels. pose proof (host_labels_ok e (snd st) (fst st)) as [H1 [H2 H3]]. repeat split; assumption. Qed.

Lemma flat_length_le nms : Forall (fun nm => (length nm <= 253)%nat) nms -> (length (flat nms) <= 254 * length nms)%nat.
Proof.
  induction 1 as [|nm r Hn Hr IH]; [cbn; lia|]. rewrite flat_cons, app_length. cbn [length]. lia.
Qed.

Lemma sum_used_front e (front : list (list N * (nat * nat))) : (forall st, In st front -> full_used e (host_used e (fst st))) ->
  (153 * length front <= fold_right (fun st a => host_used e (fst st) + a) 0 front)%nat.
Proof.
  induction front as [|st r IH]; intros H; [cbn; lia|].
  cbn [fold_right length]. pose proof (full_used_ge e _ (H st (or_introl eq_refl))).
  assert (Hr : forall st0, In st0 r -> full_used e (host_used e (fst st0))) by (intros st0 Hin; apply H; right; exact Hin).
  specialize (IH Hr). lia.
Qed.

Lemma fold_used_app e (a b : list (list N * (nat * nat))) :
  fold_right (fun st acc => host_used e (fst st) + acc)%nat 0%nat (a ++ b) =
  (fold_right (fun st acc => host_used e (fst st) + acc) 0 a + fold_right (fun st acc => host_used e (fst st) + acc) 0 b)%nat.
Proof. induction a as [|x a IH]; [reflexivity|]. cbn [app fold_right]. rewrite IH. lia. Qed.

Lemma ty_mx_tests ty : ty = T_MX \/ ty = T_SRV ->
  (ty =? T_NULL) || (ty =? T_PRIVATE) = false /\ (ty =? T_A) || (ty =? T_CNAME) = false /\
  (ty =? T_MX) || (ty =? T_SRV) = true /\ (ty =? T_CNAME) || (ty =? T_TXT) = false /\
  answer_type ty = ty.
Proof. intros [-> | ->]; repeat split; vm_compute; reflexivity. Qed.

Lemma c09_mx q p downenc td buflen d :
  q_id q < 65536 -> q_type q = T_MX \/ q_type q = T_SRV -> wf_qname (q_name q) ->
  bytes_ok p -> (2 <= length p <= N.to_nat 4096)%nat -> mx_fits (length p) buflen ->
  fst (write_dns q p downenc td) = Some d ->
  extract_ok (client_extract buflen d (length d)) q p (length p).
Proof.
  intros Hid Hty [ws [Hne [Hok [Hn Hl]]]] Hbp Hp Hfit H.
  rewrite write_dns_mx in H by exact Hty.
  assert (Hpne : p <> []) by (destruct p; [simpl in Hp; lia|discriminate]).
  rewrite mx_build_spec in H by (assumption || lia). cbn [app] in H.
  set (e := downenc) in *.
  set (sts := mx_states (S (length p)) e p td) in *.
  destruct (mx_states_shape e (S (length p)) p td sts Hpne ltac:(lia) eq_refl) as [front [lst [Hsts [Hl1 [Hl2 [Hfr Hsum]]]]]].
  pose proof (mx_states_ok e (S (length p)) p td Hbp Hpne ltac:(lia)) as Hstok. fold sts in Hstok.
  pose proof (mx_states_pieces e (S (length p)) p td ltac:(lia)) as Hpieces. fold sts in Hpieces.
  (* number of names *)
  assert (HK : (length front <= length p / 153)%nat).
  { rewrite Hsts, fold_used_app in Hsum.
    pose proof (sum_used_front e front (fun st Hin => proj1 (Hfr st Hin))) as Hs.
    apply Nat.div_le_lower_bound; lia. }
  set (wls := map (st_labels e) sts).
  assert (Hnames : map (st_name e) sts = map dotted wls) by (unfold wls; rewrite map_map; reflexivity).
  assert (Hwlen : length wls = S (length front)).
  { unfold wls. rewrite map_length, Hsts, app_length. cbn [length]. lia. }
  assert (Hwok : Forall wl_ok wls).
  { unfold wls. rewrite Forall_forall. intros wl Hin. apply in_map_iff in Hin. destruct Hin as [st [<- _]]. apply st_labels_ok. }
  assert (Hwne : wls <> []) by (intros Hw; rewrite Hw in Hwlen; discriminate).
  assert (HK2 : (length p / 153 <= 26)%nat) by lia.
  rewrite Hnames in H.
  destruct q as [name ty id]. cbn [q_name q_type q_id] in *.
  pose proof (encode_mx buf64k name ty id ws wls d buf64k_eq Hty Hok Hne Hn Hl Hwok Hwne ltac:(lia) H) as Hd.
  clear H. destruct (ty_mx_tests ty Hty) as [T1 [T2 [T3 [T4 T5]]]].
  pose proof (ty_mx_lt ty Hty) as Htl.
  (* dns_decode *)
  set (nms := map dotted wls) in *.
  assert (Honame : Forall oname_ok nms).
  { unfold nms. rewrite Forall_forall. intros nm Hin. apply in_map_iff in Hin. destruct Hin as [wl [<- Hin]].
    rewrite Forall_forall in Hwok. specialize (Hwok wl Hin). destruct (wl_ok_cname wl Hwok) as [C1 C2].
    destruct Hwok as [_ [_ C3]]. repeat split; assumption. }
  assert (Hflat : (length (flat nms) <= 254 * length nms)%nat).
  { apply flat_length_le. eapply Forall_impl; [|exact Honame]. intros a [_ [_ Ha]]. exact Ha. }
  assert (Hnl : length nms = S (length front)) by (unfold nms; rewrite map_length; exact Hwlen).
  assert (Hdec : dns_decode_answer buflen d (length d) =
                 {| da_rv := Z.of_nat (length (flat nms)); da_out := flat nms ++ [0]; da_id := Some id;
                    da_name0 := Some (hd 0 (dotted ws)); da_type := Some ty; da_rcode := 0 |}).
  { subst d. unfold mx_answer. rewrite decode_head; try assumption; try lia; [|subst name; lia].
    unfold da_tail. rewrite T1, T2, T3. cbv zeta.
    replace (Z.to_nat (Z.of_N (N.of_nat (length wls)))) with (length wls) by lia.
    change (repeat (repeat 0 name_size) 250) with (names_of []).
    rewrite <- (ans_head_len id (N.of_nat (length wls)) ws ty).
    pose proof (mx_decode_loop_spec ty wls Hty (ans_head id (N.of_nat (length wls)) ws ty) [] ty Hwok) as HL.
    cbn [length app] in HL. cbv zeta in HL. rewrite HL by (rewrite ?ans_head_len; lia). clear HL.
    fold nms. unfold names_of.
    replace (250 - length nms)%nat with (S (249 - length nms)) by lia. cbn [repeat].
    rewrite mx_output_spec; [|exact Honame|exact cstr_zeros|unfold mx_fits in Hfit; lia].
    cbn [app Nat.add]. destruct wls; [congruence|]. reflexivity. }
  (* read_dns_withq *)
  unfold client_extract. rewrite Hdec. cbn [da_rv da_out da_id da_name0 da_type da_rcode].
  assert (Hfpos : (1 <= length (flat nms))%nat) by (pose proof (flat_length nms); lia).
  destruct (Z.of_nat (length (flat nms)) <=? 0)%Z eqn:E0; [lia|].
  rewrite T4, T3. rewrite Nat2Z.id.
  (* the reassembly loop *)
  assert (Hloop : mx_namedec_loop (S (length (flat nms))) (flat nms ++ [0]) (length (flat nms)) 0 buf64k [] = p).
  { assert (Hnm2 : nms = map (st_name e) (front ++ [lst])) by (rewrite <- Hnames, Hsts; reflexivity).
    pose proof (mx_namedec_spec e buf64k (length (cstr (flat nms ++ [0]))) (flat nms ++ [0]) front lst [] []
                  (S (length (flat nms)))) as HS.
    cbn [app length Nat.add] in HS. rewrite <- Hnm2 in HS. rewrite <- Hsts in HS. rewrite Hpieces in HS.
    apply HS; clear HS.
    - reflexivity.
    - reflexivity.
    - (* names before the last have the length of the first *)
      intros st Hin. destruct front as [|f1 front']; [destruct Hin|].
      rewrite Hnm2. cbn [app map]. rewrite flat_cons, <- app_assoc. cbn [app].
      rewrite cstr_app_nul by (unfold st_name; apply host_name_nz).
      rewrite !st_name_len.
      rewrite (full_used_unique e _ _ (proj1 (Hfr st Hin)) (proj1 (Hfr f1 (or_introl eq_refl)))). reflexivity.
    - (* the last name is not longer than the first *)
      destruct front as [|f1 front'].
      + rewrite Hnm2. cbn [app map]. rewrite flat_cons, <- app_assoc. cbn [app].
        rewrite cstr_app_nul by (unfold st_name; apply host_name_nz). lia.
      + rewrite Hnm2. cbn [app map]. rewrite flat_cons, <- app_assoc. cbn [app].
        rewrite cstr_app_nul by (unfold st_name; apply host_name_nz).
        rewrite !st_name_len.
        destruct (host_codec_wf e) as [Hwf _].
        destruct (Hfr f1 (or_introl eq_refl)) as [[F1 F2] _].
        assert (Hlast : (enclen (cbits (host_codec e)) (host_used e (fst lst)) <= 245)%nat).
        { rewrite <- host_enc_len. destruct (enc_exact _ Hwf host_cap (fst lst)) as [G1 _]. cbv zeta in G1.
          pose proof host_cap_eq. unfold host_enc. lia. }
        assert (Hle : (host_used e (fst lst) <= host_used e (fst f1))%nat).
        { destruct (Nat.le_gt_cases (host_used e (fst lst)) (host_used e (fst f1))) as [Hc|Hc]; [exact Hc|].
          pose proof (enclen_mono _ Hwf (S (host_used e (fst f1))) (host_used e (fst lst)) ltac:(lia)). lia. }
        pose proof (enclen_mono _ Hwf _ _ Hle) as Hm.
        set (a := enclen (cbits (host_codec e)) (host_used e (fst lst))) in *.
        set (b := enclen (cbits (host_codec e)) (host_used e (fst f1))) in *.
        assert (a / 57 <= b / 57)%nat by (apply Nat.div_le_mono; lia). lia.
    - intros st Hin. rewrite Forall_forall in Hstok. apply Hstok, Hin.
    - pose proof buf64k_eq. lia.
    - pose proof (flat_length nms). unfold sts in *.
      assert (length nms = length (mx_states (S (length p)) e p td)) by (unfold nms, wls; rewrite !map_length; reflexivity).
      lia. }
  rewrite Hloop.
  assert (Hmin : Nat.min (length p) buflen = length p) by (unfold mx_fits in Hfit; lia).
  rewrite Hmin, firstn_all.
  unfold extract_ok. cbn [da_rv da_out da_id da_type da_name0 q_id q_type q_name]. rewrite T5, firstn_all.
  subst name. repeat split; lia.
Qed.
