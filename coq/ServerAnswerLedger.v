(* ServerAnswerLedger.v -- C14: the ghost accounting of DNS answers over Server.v.
   Query instances, the instances a state holds, the answers of an output list, and the
   "accounted" relation (every answer of a step is paid for by the incoming query or by a held
   query; whatever is neither answered nor still held is explicitly dropped).  Lemmas only about
   lists / permutations / [upd]; the handlers are treated in ServerAnswerProofs.v. *)
From Coq Require Import List NArith ZArith Arith Bool Lia Permutation.
From RecordUpdate Require Import RecordUpdate.
From Iodine Require Import Generated.SrcConsts Base Server.
Import ListNotations.
Local Open Scope N_scope.

(* lia's preprocessing touches every hypothesis, which would make each lemma of a section depend on
   the oracle variables (login, zc, unz) of that section; clear the unused ones first *)
Ltac clear_oracles := repeat match goal with f : list N -> _ |- _ => clear f end.
Ltac lia := clear_oracles; Lia.lia.

(* a query instance: (address incl. port, DNS id, question name, question type) *)
Definition inst : Type := (addr * N * list N * N)%type.

Definition q_inst (q : hq) : inst := (h_from q, h_id q, h_name q, h_type q).
Definition q_inst2 (q : hq) : inst := (h_from2 q, h_id2 q, h_name q, h_type q).
Definition inst_id (i : inst) : N := snd (fst (fst i)).

(* what one held-query slot holds: nothing when id = 0 (free slot, whatever stale id2 it has);
   otherwise the query and, when id2 <> 0, the remembered duplicate as a query of its own *)
Definition hq_held (h : hq) : list inst :=
  if h_id h =? 0 then []
  else q_inst h :: (if h_id2 h =? 0 then [] else [q_inst2 h]).

(* no condition on u_conn: a raw-mode session keeps q_sendrealsoon, and a DNS-mode ping for a
   raw-mode session is stored in (and later answered from) u_q *)
Definition user_held (u : suser) : list inst := hq_held (u_q u) ++ hq_held (u_qs u).
Definition held (st : sstate) : list inst := flat_map user_held st.

(* the DNS answers among the outputs.  [qi] = the instance of the query being processed, to which
   an auxiliary (NS / A) answer replies; ORaw, OTun, OForward are not DNS answers *)
Definition ans1 (qi : option inst) (o : out) : list inst :=
  match o with
  | OAnswer q id to _ _ => [(to, id, h_name q, h_type q)]
  | OAux to _ => match qi with Some (_, id, n, t) => [(to, id, n, t)] | None => [] end
  | _ => []
  end.
Definition answers (qi : option inst) (outs : list out) : list inst := flat_map (ans1 qi) outs.

Lemma answers_app qi a b : answers qi (a ++ b) = answers qi a ++ answers qi b.
Proof. apply flat_map_app. Qed.

(* ---- decidable equality, multiset counting ------------------------------------------------- *)

Definition addr_dec (a b : addr) : {a = b} + {a <> b}.
Proof. decide equality; try apply N.eq_dec. apply (list_eq_dec N.eq_dec). Defined.

Definition inst_dec (a b : inst) : {a = b} + {a <> b}.
Proof.
  decide equality; try apply N.eq_dec.
  decide equality; try apply (list_eq_dec N.eq_dec).
  decide equality; try apply N.eq_dec. apply addr_dec.
Defined.

Definition cnt (l : list inst) (i : inst) : nat := count_occ inst_dec l i.

Lemma cnt_app l1 l2 i : cnt (l1 ++ l2) i = (cnt l1 i + cnt l2 i)%nat.
Proof. apply count_occ_app. Qed.

Lemma cnt_perm l1 l2 : Permutation l1 l2 -> forall i, cnt l1 i = cnt l2 i.
Proof. intros H i. revert i. apply (Permutation_count_occ inst_dec), H. Qed.

Lemma perm_cnt l1 l2 : (forall i, cnt l1 i = cnt l2 i) -> Permutation l1 l2.
Proof. intros H. apply (Permutation_count_occ inst_dec). exact H. Qed.

Definition cnt1 (x i : inst) : nat := if inst_dec x i then 1%nat else 0%nat.
Lemma cnt_cons x l i : cnt (x :: l) i = (cnt1 x i + cnt l i)%nat.
Proof. unfold cnt, cnt1. simpl. destruct (inst_dec x i); reflexivity. Qed.
Lemma cnt_nil i : cnt [] i = 0%nat.
Proof. reflexivity. Qed.

(* permutation goals over ++ / :: from permutation hypotheses: linear arithmetic on counts *)
Ltac perm_lia :=
  apply perm_cnt; let x := fresh "x" in intro x;
  repeat match goal with H : Permutation _ _ |- _ => apply cnt_perm with (i := x) in H end;
  repeat (rewrite ?cnt_app, ?cnt_cons, ?cnt_nil in * );
  lia.

(* multiset inclusion *)
Definition msub (a b : list inst) : Prop := forall i, (cnt a i <= cnt b i)%nat.

(* ---- accounting -------------------------------------------------------------------------- *)

(* [pool]: the instances that just arrived.  Everything that arrived or was held is, after the
   step, answered, or still held, or dropped -- each exactly once. *)
Definition uacc (qi : option inst) (pool : list inst) (u u' : suser) (outs : list out) (dropped : list inst) : Prop :=
  Permutation (pool ++ user_held u) (answers qi outs ++ user_held u' ++ dropped).

Definition acc (qi : option inst) (pool : list inst) (st st' : sstate) (outs : list out) (dropped : list inst) : Prop :=
  Permutation (pool ++ held st) (answers qi outs ++ held st' ++ dropped).

Lemma acc_refl qi st : acc qi [] st st [] [].
Proof. unfold acc. perm_lia. Qed.

Lemma acc_drop_pool qi pool st : acc qi pool st st [] pool.
Proof. unfold acc. perm_lia. Qed.

Lemma acc_same_held qi pool st st' outs d :
  held st' = held st -> Permutation pool (answers qi outs ++ d) -> acc qi pool st st' outs d.
Proof. unfold acc. intros -> H. perm_lia. Qed.

Lemma acc_trans qi p1 p2 st0 st1 st2 o1 o2 d1 d2 :
  acc qi p1 st0 st1 o1 d1 -> acc qi p2 st1 st2 o2 d2 -> acc qi (p2 ++ p1) st0 st2 (o1 ++ o2) (d1 ++ d2).
Proof. unfold acc. intros H1 H2. rewrite answers_app. perm_lia. Qed.

Lemma uacc_trans qi p1 p2 u0 u1 u2 o1 o2 d1 d2 :
  uacc qi p1 u0 u1 o1 d1 -> uacc qi p2 u1 u2 o2 d2 -> uacc qi (p2 ++ p1) u0 u2 (o1 ++ o2) (d1 ++ d2).
Proof. unfold uacc. intros H1 H2. rewrite answers_app. perm_lia. Qed.

Lemma uacc_refl qi u : uacc qi [] u u [] [].
Proof. unfold uacc. perm_lia. Qed.

Lemma uacc_same qi u u' : user_held u' = user_held u -> uacc qi [] u u' [] [].
Proof. unfold uacc. intros ->. perm_lia. Qed.

(* ---- upd / getu ---------------------------------------------------------------------------- *)

Lemma upd_length st i f : length (upd st i f) = length st.
Proof.
  unfold upd. destruct (nth_error st i) as [u|] eqn:E.
  - assert (Hi : (i < length st)%nat) by (apply nth_error_Some; congruence).
    rewrite !app_length, firstn_length, skipn_length. simpl. lia.
  - apply nth_error_None in E. rewrite !app_length, firstn_length, skipn_length. simpl. lia.
Qed.

Lemma upd_oob st i f : (length st <= i)%nat -> upd st i f = st.
Proof.
  intros H. unfold upd. rewrite (proj2 (nth_error_None st i) H).
  rewrite firstn_all2 by lia. rewrite skipn_all2 by lia. simpl. apply app_nil_r.
Qed.

Lemma split_at st i : (i < length st)%nat ->
  st = firstn i st ++ [getu st i] ++ skipn (S i) st /\ nth_error st i = Some (getu st i).
Proof.
  intros H. unfold getu.
  assert (E : nth_error st i = Some (nth i st (user_init 0))) by (apply nth_error_nth'; exact H).
  split; [|exact E].
  rewrite <- (firstn_skipn i st) at 1. f_equal.
  clear E. revert st H. induction i as [|i IH]; intros [|x st] H; simpl in *; try lia; [reflexivity|].
  apply IH. lia.
Qed.

Lemma upd_inb st i f : (i < length st)%nat ->
  upd st i f = firstn i st ++ [f (getu st i)] ++ skipn (S i) st.
Proof. intros H. unfold upd. destruct (split_at st i H) as [_ ->]. reflexivity. Qed.

Lemma getu_upd_same st i f : (i < length st)%nat -> getu (upd st i f) i = f (getu st i).
Proof.
  intros H. rewrite upd_inb by exact H. unfold getu at 1.
  rewrite app_nth2; rewrite firstn_length, Nat.min_l by lia; [|lia].
  rewrite Nat.sub_diag. reflexivity.
Qed.

Lemma getu_upd_other st i j f : i <> j -> getu (upd st i f) j = getu st j.
Proof.
  intros Hij. destruct (Nat.lt_ge_cases i (length st)) as [H|H]; [|rewrite upd_oob by exact H; reflexivity].
  rewrite upd_inb by exact H. unfold getu.
  destruct (split_at st i H) as [E _].
  rewrite E at 4.
  destruct (Nat.lt_ge_cases j i) as [Hj|Hj].
  - rewrite !app_nth1 by (rewrite firstn_length; lia). reflexivity.
  - rewrite !(app_nth2 (firstn i st)) by (rewrite firstn_length; lia).
    rewrite firstn_length, Nat.min_l by lia.
    destruct (j - i)%nat as [|k] eqn:Ek; [lia|]. reflexivity.
Qed.

Lemma held_split st i : (i < length st)%nat ->
  held st = held (firstn i st) ++ user_held (getu st i) ++ held (skipn (S i) st).
Proof.
  intros H. destruct (split_at st i H) as [E _]. unfold held. rewrite E at 1.
  rewrite !flat_map_app. simpl. rewrite app_nil_r. reflexivity.
Qed.

Lemma held_upd st i f : (i < length st)%nat ->
  held (upd st i f) = held (firstn i st) ++ user_held (f (getu st i)) ++ held (skipn (S i) st).
Proof.
  intros H. rewrite upd_inb by exact H. unfold held.
  rewrite !flat_map_app. simpl. rewrite app_nil_r. reflexivity.
Qed.

(* an update that leaves both held-query slots of the user alone *)
Lemma held_upd_frame st i f :
  (forall u, user_held (f u) = user_held u) -> held (upd st i f) = held st.
Proof.
  intros Hf. destruct (Nat.lt_ge_cases i (length st)) as [H|H]; [|rewrite upd_oob by exact H; reflexivity].
  rewrite held_upd, (held_split st i) by exact H. rewrite Hf. reflexivity.
Qed.

(* lifting a one-user accounting to the state *)
Lemma acc_upd qi pool st i f outs d : (i < length st)%nat ->
  uacc qi pool (getu st i) (f (getu st i)) outs d -> acc qi pool st (upd st i f) outs d.
Proof.
  unfold uacc, acc. intros H Hu. rewrite held_upd, (held_split st i) by exact H.
  perm_lia.
Qed.

(* ---- the invariant -------------------------------------------------------------------------- *)

(* [received] = instances of all query datagrams so far; [answered] = instances of all answers so
   far.  One permutation says it all: the answers and the held instances are, with multiplicity,
   distinct received datagrams ([slack] = received queries that were dropped or are gone). *)
Definition Inv (st : sstate) (received answered : list inst) : Prop :=
  exists slack, Permutation received (answered ++ held st ++ slack).

Lemma Inv_msub st received answered : Inv st received answered ->
  forall i, (cnt answered i + cnt (held st) i <= cnt received i)%nat.
Proof.
  intros [slack H] i. rewrite (cnt_perm _ _ H i), !cnt_app. lia.
Qed.

Lemma Inv_step qi pool st st' outs d received answered :
  Inv st received answered -> acc qi pool st st' outs d ->
  Inv st' (pool ++ received) (answered ++ answers qi outs).
Proof.
  intros [slack H] Ha. exists (d ++ slack). unfold acc in Ha. perm_lia.
 Qed.

Lemma acc_answers_from qi pool st st' outs d :
  acc qi pool st st' outs d -> msub (answers qi outs) (pool ++ held st).
Proof. intros H i. rewrite (cnt_perm _ _ H i), !cnt_app. lia. Qed.

(* the counting form is equivalent: the slack is the multiset difference *)
Lemma msub_perm a : forall b, msub a b -> exists c, Permutation b (a ++ c).
Proof.
  induction a as [|x a IH]; intros b H.
  - exists b. reflexivity.
  - assert (Hin : In x b).
    { apply (count_occ_In inst_dec). specialize (H x). rewrite cnt_cons in H. unfold cnt1 in H.
      destruct (inst_dec x x); [|congruence]. unfold cnt in H. lia. }
    apply in_split in Hin. destruct Hin as (b1 & b2 & ->).
    destruct (IH (b1 ++ b2)) as [c Hc].
    { intros i. specialize (H i). rewrite cnt_cons, cnt_app, cnt_cons in H. rewrite cnt_app. lia. }
    exists c. simpl. rewrite <- Hc. symmetry. apply Permutation_middle.
Qed.

Lemma Inv_of_counts st received answered :
  (forall i, (cnt answered i + cnt (held st) i <= cnt received i)%nat) -> Inv st received answered.
Proof.
  intros H. destruct (msub_perm (answered ++ held st) received) as [c Hc].
  { intros i. rewrite cnt_app. apply H. }
  exists c. rewrite <- app_assoc in Hc. exact Hc.
Qed.
