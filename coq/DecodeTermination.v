(* DecodeTermination.v -- C06: fuel adequacy statements in the form used by Properties_C06.v. *)
From Coq Require Import List NArith ZArith Arith Bool Lia.
From Iodine Require Import Generated.SrcConsts Base DnsName DnsMsg DecodeSafetyProofs DecodeSafetyMx.
Import ListNotations.
Local Open Scope nat_scope.

Lemma readname_fuel_adequate buf plen lim loop s0 fuel : plen - s0 < fuel ->
  rl_labels buf plen lim (fun l off => readname_lvl buf plen l loop off) fuel s0 0 [] =
  readname_lvl buf plen lim (S loop) s0.
Proof. intros H. rewrite readname_lvl_S. apply rl_labels_fuel; lia. Qed.

Lemma readtxtbin_fuel_adequate buf fuel p srcremain dstremain : srcremain < fuel ->
  readtxtbin_go fuel buf p srcremain dstremain [] = readtxtbin buf p srcremain dstremain.
Proof. intros H. apply readtxtbin_go_fuel; lia. Qed.

Lemma mx_namedec_fuel_adequate fuel bufbytes buftotal dataspace0 : buftotal < fuel ->
  mx_namedec_loop fuel bufbytes buftotal 0 dataspace0 [] =
  mx_namedec_loop (S buftotal) bufbytes buftotal 0 dataspace0 [].
Proof. intros H. apply mx_namedec_loop_fuel; lia. Qed.
