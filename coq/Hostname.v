(* Hostname.v -- executable model of src/encoding.c (build_hostname, inline_dotify,
   inline_undotify, unpack_data) and of the client's query-name builders in src/client.c
   (send_chunk, send_packet family, send_fragsize_probe).  Model only. *)
From Coq Require Import List NArith Arith Bool.
From Iodine Require Import Generated.SrcConsts Base Codec.
Import ListNotations.
Local Open Scope N_scope.

Definition DOT : N := 46.

(* the period (57) appears three times in encoding.c; the model uses each where the C does *)
Definition period_build : nat := N.to_nat src_DOT_PERIOD_BUILD.     (* space -= space / 57 *)
Definition period_dots : nat := N.to_nat src_DOT_PERIOD_DOTIFY.     (* dots = total / 57 *)
Definition period_pos : nat := N.to_nat src_DOT_PERIOD_DOTIFY2.     (* pos % 57 == 0 *)
Definition reserve : nat := N.to_nat src_HOSTNAME_RESERVE.          (* 8 *)

(* inline_dotify, as a forward function: the C copies backwards from the end, moving the
   char with 0-based index r to the right and putting a '.' in front of it whenever
   r % period_pos = 0, until total/period_dots dots have been placed.  dotify_back is that
   loop: it walks the string from the right (index r = total, total-1, ...). *)
Fixpoint dotify_back (rev_rest : list N) (r : nat) (dots : nat) (acc : list N) {struct rev_rest} : list N :=
  (* rev_rest = chars with indices r-1, r-2, ... 0 ; acc = already produced suffix (without the
     char at index r, which is the terminating NUL on entry) *)
  match dots with
  | O => List.rev rev_rest ++ acc
  | S _ =>
      let dots' := if (Nat.eqb (r mod period_pos) 0) then Nat.pred dots else dots in
      let acc' := if (Nat.eqb (r mod period_pos) 0) then DOT :: acc else acc in
      match rev_rest with
      | [] => acc'                         (* would run before the buffer: cannot happen when
                                              period_pos = period_dots, see HostnameProofs *)
      | ch :: rest' =>
          match dots' with
          | O => List.rev rev_rest ++ acc'
          | S _ => dotify_back rest' (Nat.pred r) dots' (ch :: acc')
          end
      end
  end.

(* None: the dotted string would not fit buflen (the C then truncates, writing buf[buflen]) *)
Definition inline_dotify (s : list N) (buflen : nat) : option (list N) :=
  let total := length s in
  let dots := (total / period_dots)%nat in
  if (buflen <? total + dots)%nat then None
  else Some (dotify_back (List.rev s) total dots []).

(* reference shape used by the theorems: a dot after every full group of p chars *)
Fixpoint dotify_spec (fuel : nat) (p : nat) (s : list N) : list N :=
  match fuel with
  | O => s
  | S f => if (length s <? p)%nat then s else firstn p s ++ DOT :: dotify_spec f p (skipn p s)
  end.

Definition inline_undotify (s : list N) (len : nat) : list N :=
  filter (fun ch => negb (ch =? DOT)) (firstn len s).

(* unpack_data(buf, buflen, data, datalen, enc): undotify (no codec eats dots) then decode *)
Definition unpack_data (c : codec) (buflen : nat) (data : list N) (datalen : nat) : list N :=
  decode c buflen (inline_undotify data datalen).

(* build_hostname(buf, buflen, data, datalen, topdomain, encoder, maxlen).
   Returns None when MIN(maxlen, buflen) - strlen(topdomain) - 8 underflows (size_t): the C then
   encodes without a bound; outside the modelled domain.  Otherwise (name, consumed). *)
Definition build_hostname (c : codec) (buflen : nat) (data : list N) (topdomain : list N) (maxlen : nat)
  : option (list N * nat) :=
  let m := Nat.min maxlen buflen in
  if (m <? length topdomain + reserve)%nat then None
  else
    let space0 := (m - length topdomain - reserve)%nat in
    let space := (space0 - space0 / period_build)%nat in
    let r := encode c space data in
    match inline_dotify (fst r) buflen with
    | None => None
    | Some dotted =>
        (* b = buf + strlen(buf) - 1; when the char at b is not a dot, append one (strlen(buf) = 0
           would read buf[-1]: excluded, callers always pass >= 1 byte and capacity >= 2) *)
        let dotted' := if (last dotted 0 =? DOT) then dotted else dotted ++ [DOT] in
        Some (dotted' ++ topdomain, snd r)
    end.

(* ---- client builders ------------------------------------------------------------- *)

(* send_packet(fd, cmd, data, datalen): cmd char + build_hostname(buf+1, 4095, ..., base32) *)
Definition packet_name (cmd : N) (data topdomain : list N) (maxlen : nat) : option (list N * nat) :=
  match build_hostname b32 4095 data topdomain maxlen with
  | None => None
  | Some (nm, n) => Some (cmd :: nm, n)
  end.

(* send_chunk: 5 header chars then build_hostname(buf+5, 4091, ..., dataenc).
   hdr = the five header characters (userid char, three base32 digits, CMC char) *)
Definition chunk_name (c : codec) (hdr : list N) (data topdomain : list N) (maxlen : nat)
  : option (list N * nat) :=
  match build_hostname c 4091 data topdomain maxlen with
  | None => None
  | Some (nm, n) => Some (hdr ++ nm, n)
  end.

(* the data header of send_chunk, from the protocol fields *)
Definition userid_char (userid : N) : N :=
  (* client: sprintf("%01x") lower case hex digit of userid 0..15 *)
  if userid <? 10 then 48 + userid else 87 + userid.

Definition cmc_chars : list N :=
  [97;98;99;100;101;102;103;104;105;106;107;108;109;110;111;112;113;114;115;116;117;118;119;120;121;122;
   48;49;50;51;52;53;54;55;56;57].

Definition chunk_header (userid out_seq out_frag in_seq in_frag : N) (last : bool) (cmc : nat) : list N :=
  [ userid_char userid;
    b32_5to8 (((out_seq mod 8) * 4) + ((out_frag mod 16) / 4));
    b32_5to8 (((out_frag mod 4) * 8) + (in_seq mod 8));
    b32_5to8 (((in_frag mod 16) * 2) + (if last then 1 else 0));
    nth cmc cmc_chars 0 ].

(* send_fragsize_probe: 256 probe bytes, header 'r' + 3 base32 digits + 'd' *)
Definition probe_header (userid fragsize : N) : list N :=
  let f := fragsize mod 2048 in
  [ 114; b32_5to8 ((userid * 2 + (f / 1024) mod 2) mod 32); b32_5to8 ((f / 32) mod 32); b32_5to8 (f mod 32); 100 ].

(* ---- complete query names as the client's send functions build them ---------------- *)

(* send_chunk: header depends on whether the whole remainder was consumed (last-fragment flag) *)
Definition send_chunk_name (c : codec) (userid out_seq out_frag in_seq in_frag : N) (cmc : nat)
           (data topdomain : list N) (maxlen : nat) : option (list N * nat) :=
  match build_hostname c 4091 data topdomain maxlen with
  | None => None
  | Some (nm, n) =>
      Some (chunk_header userid out_seq out_frag in_seq in_frag (Nat.eqb n (length data)) cmc ++ nm, n)
  end.

(* send_fragsize_probe: 256 probe bytes from the 16-bit rand_seed *)
Definition probe_data (rand_seed : N) : list N :=
  let a := N.max 1 (rand_seed mod 256) in
  let b := N.max 1 ((rand_seed / 256) mod 256) in
  a :: b :: repeat a 254.

Definition probe_name (c : codec) (userid fragsize rand_seed : N) (topdomain : list N) (maxlen : nat)
  : option (list N * nat) :=
  match build_hostname c 4091 (probe_data rand_seed) topdomain maxlen with
  | None => None
  | Some (nm, n) => Some (probe_header userid fragsize ++ nm, n)
  end.

Definition seed_bytes (rand_seed : N) : list N := [(rand_seed / 256) mod 256; rand_seed mod 256].

(* payloads of the send_packet family *)
Definition version_data (version rand_seed : N) : list N :=
  [(version / 16777216) mod 256; (version / 65536) mod 256; (version / 256) mod 256; version mod 256] ++ seed_bytes rand_seed.
Definition login_data (userid : N) (login : list N) (rand_seed : N) : list N :=
  userid :: firstn 16 (login ++ repeat 0 16) ++ seed_bytes rand_seed.
Definition ping_data (userid in_seq in_frag rand_seed : N) : list N :=
  [userid; ((in_seq mod 8) * 16 + in_frag mod 16)] ++ seed_bytes rand_seed.
Definition fragsize_data (userid fragsize rand_seed : N) : list N :=
  [userid; (fragsize / 256) mod 256; fragsize mod 256] ++ seed_bytes rand_seed.

(* send_handshake_query(prefix): prefix (<= 60 chars) + 3 base32 CMC chars + "." + topdomain *)
Definition cmc3 (rand_seed : N) : list N :=
  [b32_5to8 ((rand_seed / 1024) mod 32); b32_5to8 ((rand_seed / 32) mod 32); b32_5to8 (rand_seed mod 32)].
Definition handshake_name (prefix : list N) (rand_seed : N) (topdomain : list N) : list N :=
  firstn 299 (firstn 60 prefix ++ cmc3 rand_seed ++ [DOT] ++ topdomain).
(* send_upenctest(s): "z" + CMC + s (<= 128) + "." + topdomain *)
Definition upenctest_name (s : list N) (rand_seed : N) (topdomain : list N) : list N :=
  122 :: cmc3 rand_seed ++ firstn 128 s ++ [DOT] ++ topdomain.
