(* ServerAuthSteps.v -- per-step and per-trace access-control statements about the iodined model,
   derived from the effect classification of ServerAuthProofs.v.

   Events that may change the access-control state of slot i (all other events leave [sec] of
   every slot alone):
     alloc_event     a V request with the right protocol version, when find_available_user picks i
     login_event     an L request naming i that passes check_user_and_ip and carries
                     login(password, seed of slot i)
     option_event    an S / O / N request naming i that passes the authenticated+options check
     rawlogin_event  a raw LOGIN frame for i carrying login(password, seed+1), slot i logged in *)
From Coq Require Import List NArith ZArith Arith Bool Lia.
From RecordUpdate Require Import RecordUpdate.
From Iodine Require Import Generated.SrcConsts Base Codec Hostname DnsName DnsMsg Domain Server
  ServerFrame ServerAuthDefs ServerAuthProofs.
Import ListNotations.
Local Open Scope N_scope.

Lemma snoc_split {A} (l : list A) x a y b : l ++ [x] = a ++ y :: b ->
  (a = l /\ y = x /\ b = []) \/ exists b', b = b' ++ [x] /\ l = a ++ y :: b'.
Proof.
  intros H. destruct b as [|z b0] using rev_ind.
  - left. change (a ++ [y]) with (a ++ [y]) in H. apply app_inj_tail in H. destruct H; subst. auto.
  - clear IHb0. right. exists b0. change (a ++ y :: b0 ++ [z]) with (a ++ (y :: b0) ++ [z]) in H.
    rewrite app_assoc in H. apply app_inj_tail in H. destruct H; subst. auto.
Qed.

Section WithOracles.
Variable login : list N -> N -> list N.
Variable zc : list N -> list N.
Variable unz : list N -> option (list N).

Notation step := (Server.step login zc unz).

(* ---- events -------------------------------------------------------------------------------------- *)

(* the DNS query reached handle_null_request with dl >= 2 request bytes *)
Definition dns_req (c : cfg) (e : event) (now rnd : N) (q : hq) (dl : nat) : Prop :=
  e = EDns now rnd q /\ dispatch c q = Some dl /\ (2 <= dl)%nat.

Definition alloc_event (c : cfg) (st : sstate) (e : event) (i : nat) : Prop :=
  exists now rnd q dl, dns_req c e now rnd q dl /\
    cmd_of (chr (req_inb q dl) 0) = CV /\ version_of (req_unpacked q dl) = src_PROTOCOL_VERSION /\
    find_available_from st now 0 = Some i.

Definition login_event (c : cfg) (st : sstate) (e : event) (i : nat) : Prop :=
  exists now rnd q dl, dns_req c e now rnd q dl /\
    cmd_of (chr (req_inb q dl) 0) = CL /\ named_user q dl = Some (Z.of_nat i) /\
    check_user_and_ip c st now (Z.of_nat i) (h_from q) = false /\
    login_hash_ok login c st q dl i.

Definition option_event (c : cfg) (st : sstate) (e : event) (i : nat) : Prop :=
  exists now rnd q dl, dns_req c e now rnd q dl /\
    is_option_cmd (cmd_of (chr (req_inb q dl) 0)) /\ named_user q dl = Some (Z.of_nat i) /\
    check_auth_options c st now (Z.of_nat i) (h_from q) = false.

Definition data_event (c : cfg) (st : sstate) (e : event) (i : nat) : Prop :=
  exists now rnd q dl, dns_req c e now rnd q dl /\
    cmd_of (chr (req_inb q dl) 0) = CData /\ named_user q dl = Some (Z.of_nat i) /\
    check_auth c st now (Z.of_nat i) (h_from q) = false.

(* any accepted DNS-mode request naming slot i *)
Definition dns_acting (c : cfg) (st : sstate) (e : event) (i : nat) : Prop :=
  exists now rnd q dl, dns_req c e now rnd q dl /\
    named_user q dl = Some (Z.of_nat i) /\
    cmd_check c st now (cmd_of (chr (req_inb q dl) 0)) (Z.of_nat i) (h_from q) = false.

Definition rawlogin_event (c : cfg) (st : sstate) (e : event) (i : nat) : Prop :=
  exists now from pk, e = ERaw now from pk /\ raw_hdr pk src_RAW_HDR_CMD_LOGIN i /\
    raw_login_ok login c st now pk i.

Definition rawdata_event (c : cfg) (st : sstate) (e : event) (i : nat) : Prop :=
  exists now from pk, e = ERaw now from pk /\ raw_hdr pk src_RAW_HDR_CMD_DATA i /\
    check_auth c st now (Z.of_nat i) from = false /\ u_auth_raw (getu st i) = true.

Definition rawping_event (c : cfg) (st : sstate) (e : event) (i : nat) : Prop :=
  exists now from pk, e = ERaw now from pk /\ raw_hdr pk src_RAW_HDR_CMD_PING i /\
    check_auth c st now (Z.of_nat i) from = false /\ u_auth_raw (getu st i) = true.

(* what acceptance means *)
Lemma check_auth_nat c st now i from : check_auth c st now (Z.of_nat i) from = false ->
  slot_ok st now i /\ source_ok c (getu st i) from /\ u_auth (getu st i) = true.
Proof.
  intros H. apply check_auth_false in H. destruct H as [H Ha]. apply cuip_false in H.
  rewrite Nat2Z.id in *. tauto.
Qed.

Lemma cuip_nat c st now i from : check_user_and_ip c st now (Z.of_nat i) from = false ->
  slot_ok st now i /\ source_ok c (getu st i) from.
Proof. intros H. apply cuip_false in H. rewrite Nat2Z.id in *. tauto. Qed.

(* ---- classification of one step, slot by slot ---------------------------------------------------- *)

Inductive slot_change (c : cfg) (st : sstate) (e : event) (i : nat) (u u' : suser) : Prop :=
| SC_same : sec u' = sec u -> slot_change c st e i u u'
| SC_alloc now rnd q : e = EDns now rnd q -> alloc_event c st e i ->
    u' = reset_session (claim now u) q (rnd mod 2147483648) -> slot_change c st e i u u'
| SC_login now rnd q : e = EDns now rnd q -> login_event c st e i ->
    u' = set_login now u -> slot_change c st e i u u'
| SC_option : option_event c st e i -> ident u' = ident u -> slot_change c st e i u u'
| SC_rawlogin now from pk : e = ERaw now from pk -> rawlogin_event c st e i ->
    u' = set_raw now from u -> slot_change c st e i u u'.

Lemma Forall_In {A} (P : A -> Prop) l x : Forall P l -> In x l -> P x.
Proof. intros F. rewrite Forall_forall in F. apply F. Qed.

Theorem step_slot_change c st e st' outs : step c st e = (st', outs) ->
  length st' = length st /\ forall i, slot_change c st e i (getu st i) (getu st' i).
Proof.
  destruct e as [now rnd q|now from pk|now pk|now|now]; simpl.
  - destruct (dispatch c q) as [dl|] eqn:Ed.
    + rewrite (tunnel_dns_dispatch login unz c st now rnd q dl Ed). intros H.
      apply hnr_effect_spec in H.
      destruct H as [outs Ha | i0 Hdl Ek Ev Ef | i0 Hdl Ek Hn Hp Hc Hh | i0 Hdl Ek Hn Hp Hc Hh
                    | i0 f outs Hdl Ek Hn Hp Hc Hf Ha | i0 st' outs Hdl Ek Hn Hp Hc SS Ha Ho
                    | i0 st' outs Hdl Ek Hn Hp Hc SS].
      * split; [reflexivity|]. intros i. apply SC_same. reflexivity.
      * split; [apply upd_length|]. intros i. rewrite getu_upd.
        destruct ((i =? i0)%nat && (i0 <? length st)%nat) eqn:E; [|apply SC_same; reflexivity].
        apply andb_true_iff in E. destruct E as [E _]. apply Nat.eqb_eq in E. subst i0.
        eapply SC_alloc; [reflexivity| |reflexivity].
        exists now, rnd, q, dl. repeat split; assumption.
      * split; [apply upd_length|]. intros i. apply SC_same.
        apply (proj2 (sec_same_upd st i0 (touch now) (fun u => eq_refl))).
      * split; [apply upd_length|]. intros i. rewrite getu_upd.
        destruct ((i =? i0)%nat && (i0 <? length st)%nat) eqn:E; [|apply SC_same; reflexivity].
        apply andb_true_iff in E. destruct E as [E _]. apply Nat.eqb_eq in E. subst i0.
        eapply SC_login; [reflexivity| |reflexivity].
        exists now, rnd, q, dl. split; [repeat split; assumption|]. split; [exact Ek|]. split; [exact Hn|].
        split; [exact Hc|exact Hh].
      * split; [apply upd_length|]. intros i. rewrite getu_upd.
        destruct ((i =? i0)%nat && (i0 <? length st)%nat) eqn:E; [|apply SC_same; reflexivity].
        apply andb_true_iff in E. destruct E as [E _]. apply Nat.eqb_eq in E. subst i0.
        apply SC_option; [|apply Hf]. exists now, rnd, q, dl. repeat split; assumption.
      * split; [apply SS|]. intros i. apply SC_same. apply SS.
      * split; [apply SS|]. intros i. apply SC_same. apply SS.
    + destruct (tunnel_dns_nodispatch login unz c st now rnd q Ed) as (o & -> & _).
      intros H; inversion H; subst. split; [reflexivity|]. intros i. apply SC_same. reflexivity.
  - destruct (raw_decode login unz c st now pk from) as [r|] eqn:Er.
    + intros ->. apply raw_effect_spec in Er.
      destruct Er as [ | i0 Hh Hok | i0 st' outs Hh Hc Hr SS | i0 Hh Hc Hr].
      * split; [reflexivity|]. intros i. apply SC_same. reflexivity.
      * split; [apply upd_length|]. intros i. rewrite getu_upd.
        destruct ((i =? i0)%nat && (i0 <? length st)%nat) eqn:E; [|apply SC_same; reflexivity].
        apply andb_true_iff in E. destruct E as [E _]. apply Nat.eqb_eq in E. subst i0.
        eapply SC_rawlogin; [reflexivity| |reflexivity]. exists now, from, pk. split; [reflexivity|]. repeat (split; [assumption|]). assumption.
      * split; [apply SS|]. intros i. apply SC_same. apply SS.
      * split; [apply upd_length|]. intros i. apply SC_same.
        match goal with |- sec (getu (upd st i0 ?f) i) = _ => apply (proj2 (sec_same_upd st i0 f (fun u => eq_refl))) end.
    + intros H; inversion H; subst. split; [reflexivity|]. intros i. apply SC_same. reflexivity.
  - intros H. apply tunnel_tun_sec in H. destruct H as [SS _]. split; [apply SS|].
    intros i. apply SC_same. apply SS.
  - intros H; inversion H; subst. pose proof (sweep_clear_sec st now) as SS. split; [apply SS|].
    intros i. apply SC_same. apply SS.
  - intros H. apply sweep_send_spec in H. destruct H as [SS _]. split; [apply SS|].
    intros i. apply SC_same. apply SS.
Qed.

(* ---- C03: per step ---------------------------------------------------------------------------------- *)

Theorem auth_only_by_login c st e st' outs i : step c st e = (st', outs) ->
  u_auth (getu st i) = false -> u_auth (getu st' i) = true -> login_event c st e i.
Proof.
  intros H F T. destruct (step_slot_change _ _ _ _ _ H) as [_ S]. specialize (S i).
  destruct S as [Hs | now rnd q He Ha Hu | now rnd q He Hl Hu | Ho Hi | now from pk He Hr Hu].
  - apply sec_fields in Hs. destruct Hs as (_ & Hs & _). congruence.
  - rewrite Hu in T. discriminate.
  - exact Hl.
  - unfold ident in Hi. inversion Hi. congruence.
  - rewrite Hu in T. simpl in T. congruence.
Qed.

Theorem authraw_only_by_raw_login c st e st' outs i : step c st e = (st', outs) ->
  u_auth_raw (getu st i) = false -> u_auth_raw (getu st' i) = true -> rawlogin_event c st e i.
Proof.
  intros H F T. destruct (step_slot_change _ _ _ _ _ H) as [_ S]. specialize (S i).
  destruct S as [Hs | now rnd q He Ha Hu | now rnd q He Hl Hu | Ho Hi | now from pk He Hr Hu].
  - apply sec_fields in Hs. destruct Hs as (_ & _ & Hs & _). congruence.
  - rewrite Hu in T. discriminate.
  - rewrite Hu in T. simpl in T. congruence.
  - unfold ident in Hi. inversion Hi. congruence.
  - exact Hr.
Qed.

(* the V handler: what an allocation does *)
Theorem alloc_result c st now rnd q dl i st' outs :
  dns_req c (EDns now rnd q) now rnd q dl ->
  cmd_of (chr (req_inb q dl) 0) = CV -> version_of (req_unpacked q dl) = src_PROTOCOL_VERSION ->
  find_available_from st now 0 = Some i ->
  step c st (EDns now rnd q) = (st', outs) ->
  st' = upd st i (fun u => reset_session (claim now u) q (rnd mod 2147483648)) /\
  outs = [mk_answer q (vack (rnd mod 2147483648) i) 84] /\
  getu st' i = reset_session (claim now (getu st i)) q (rnd mod 2147483648) /\
  (forall j, j <> i -> getu st' j = getu st j).
Proof.
  intros (_ & Hd & Hdl) Ek Ev Ef. simpl. rewrite (tunnel_dns_dispatch login unz c st now rnd q dl Hd).
  rewrite hnr_eq. unfold hnr'. destruct (dl <? 2)%nat eqn:E; [apply Nat.ltb_lt in E; lia|]. cbv zeta.
  rewrite Ek. unfold hV. cbv zeta. rewrite Ev, N.eqb_refl, Ef. intros H; inversion H; subst.
  split; [reflexivity|]. split; [reflexivity|].
  destruct (faf_some _ _ _ Ef) as (Hl & _).
  split; [apply getu_upd_same, Hl|]. intros j Hj. apply getu_upd_other, Hj.
Qed.

Lemma reset_claim_fields now u q seed :
  let u' := reset_session (claim now u) q seed in
  u_active u' = true /\ u_auth u' = false /\ u_auth_raw u' = false /\ u_locked u' = false /\
  u_seed u' = seed /\ u_host u' = h_from q /\ u_last u' = now /\ u_conn u' = CONN_DNS /\
  u_enc u' = 0 /\ u_downenc u' = 84 /\ u_lazy u' = false /\ u_fragsize u' = 100 /\
  u_tun_ip u' = u_tun_ip u /\ u_disabled u' = u_disabled u.
Proof. cbv zeta. repeat split. Qed.

(* a slot's seed / activity changes only by allocation *)
Theorem seed_only_by_alloc c st e st' outs i : step c st e = (st', outs) ->
  u_active (getu st' i) <> u_active (getu st i) \/ u_seed (getu st' i) <> u_seed (getu st i) ->
  alloc_event c st e i.
Proof.
  intros H D. destruct (step_slot_change _ _ _ _ _ H) as [_ S]. specialize (S i).
  destruct S as [Hs | now rnd q He Ha Hu | now rnd q He Hl Hu | Ho Hi | now from pk He Hr Hu].
  - apply sec_fields in Hs. destruct Hs as (H1 & _ & _ & _ & _ & H2 & _). destruct D; congruence.
  - exact Ha.
  - rewrite Hu in D. simpl in D. destruct D; congruence.
  - unfold ident in Hi. inversion Hi. destruct D; congruence.
  - rewrite Hu in D. simpl in D. destruct D; congruence.
Qed.

(* flags never get set by an allocation, and an allocation is the only way to lose them *)
Theorem alloc_clears c st e st' outs i : step c st e = (st', outs) -> alloc_event c st e i ->
  exists now rnd q, e = EDns now rnd q /\
    getu st' i = reset_session (claim now (getu st i)) q (rnd mod 2147483648) /\
    u_active (getu st' i) = true /\ u_auth (getu st' i) = false /\ u_auth_raw (getu st' i) = false /\
    u_seed (getu st' i) = rnd mod 2147483648 /\ (forall j, j <> i -> getu st' j = getu st j).
Proof.
  intros H (now & rnd & q & dl & (He & Hd & Hdl) & Ek & Ev & Ef). subst e.
  assert (Hr : dns_req c (EDns now rnd q) now rnd q dl) by (repeat split; assumption).
  destruct (alloc_result _ _ _ _ _ _ _ _ _ Hr Ek Ev Ef H) as (_ & _ & Hg & Ho).
  exists now, rnd, q. split; [reflexivity|]. split; [exact Hg|]. rewrite Hg.
  pose proof (reset_claim_fields now (getu st i) q (rnd mod 2147483648)) as F. cbv zeta in F.
  repeat split; try apply F. exact Ho.
Qed.

(* -- privileged effects *)

Lemma not_ans_tun b : ~ is_ans (OTun b). Proof. intros []. Qed.
Lemma not_ans_raw a b : ~ is_ans (ORaw a b). Proof. intros []. Qed.

Theorem tun_write_authorized c st e st' outs b : step c st e = (st', outs) -> In (OTun b) outs ->
  (exists i, data_event c st e i) \/ (exists i, rawdata_event c st e i).
Proof.
  destruct e as [now rnd q|now from pk|now pk|now|now]; simpl.
  - destruct (dispatch c q) as [dl|] eqn:Ed.
    + rewrite (tunnel_dns_dispatch login unz c st now rnd q dl Ed). intros H Hin.
      apply hnr_effect_spec in H.
      destruct H as [outs Ha | i0 Hdl Ek Ev Ef | i0 Hdl Ek Hn Hp Hc Hh | i0 Hdl Ek Hn Hp Hc Hh
                    | i0 f outs Hdl Ek Hn Hp Hc Hf Ha | i0 st' outs Hdl Ek Hn Hp Hc SS Ha Ho
                    | i0 st' outs Hdl Ek Hn Hp Hc SS];
        try (exfalso; apply (not_ans_tun b); eapply Forall_In; [|exact Hin]; first [exact Ha|apply ans1]).
      left. exists i0, now, rnd, q, dl. repeat split; assumption.
    + destruct (tunnel_dns_nodispatch login unz c st now rnd q Ed) as (o & -> & Hf).
      intros H Hin; inversion H; subst. exfalso. apply (Forall_In _ _ _ Hf) in Hin. exact Hin.
  - destruct (raw_decode login unz c st now pk from) as [r|] eqn:Er.
    + intros -> Hin. apply raw_effect_spec in Er.
      destruct Er as [ | i0 Hh Hok | i0 st' outs Hh Hc Hr SS | i0 Hh Hc Hr].
      * destruct Hin.
      * destruct Hin as [Hin|[]]. discriminate.
      * right. exists i0, now, from, pk. split; [reflexivity|]. repeat (split; [assumption|]). assumption.
      * destruct Hin as [Hin|[]]. discriminate.
    + intros H Hin; inversion H; subst. destruct Hin.
  - intros H Hin. apply tunnel_tun_sec in H. destruct H as [_ Hf]. exfalso.
    apply (Forall_In _ _ _ Hf) in Hin. exact Hin.
  - intros H Hin; inversion H; subst. destruct Hin.
  - intros H Hin. apply sweep_send_spec in H. destruct H as [_ (o & -> & Hf)]. simpl in Hin.
    exfalso. apply (not_ans_tun b). eapply Forall_In; eassumption.
Qed.

(* a request that changes anything is an allocation or names a session that passed its check *)
Theorem dns_change_authorized c st now rnd q st' outs : step c st (EDns now rnd q) = (st', outs) ->
  st' <> st ->
  (exists i, alloc_event c st (EDns now rnd q) i) \/
  (exists i, dns_acting c st (EDns now rnd q) i /\
     forall dl, dispatch c q = Some dl -> cmd_of (chr (req_inb q dl) 0) = CL ->
       forall j, j <> i -> getu st' j = getu st j).
Proof.
  simpl. destruct (dispatch c q) as [dl|] eqn:Ed.
  - rewrite (tunnel_dns_dispatch login unz c st now rnd q dl Ed). intros H Hne.
    apply hnr_effect_spec in H.
    destruct H as [outs Ha | i0 Hdl Ek Ev Ef | i0 Hdl Ek Hn Hp Hc Hh | i0 Hdl Ek Hn Hp Hc Hh
                  | i0 f outs Hdl Ek Hn Hp Hc Hf Ha | i0 st' outs Hdl Ek Hn Hp Hc SS Ha Ho
                  | i0 st' outs Hdl Ek Hn Hp Hc SS].
    + contradiction.
    + left. exists i0, now, rnd, q, dl. repeat split; assumption.
    + right. exists i0. split.
      * exists now, rnd, q, dl. split; [repeat split; assumption|]. split; [exact Hn|]. rewrite Ek. exact Hc.
      * intros dl' Hd' _ j Hj. apply getu_upd_other, Hj.
    + right. exists i0. split.
      * exists now, rnd, q, dl. split; [repeat split; assumption|]. split; [exact Hn|]. rewrite Ek. exact Hc.
      * intros dl' Hd' _ j Hj. apply getu_upd_other, Hj.
    + right. exists i0. split.
      * exists now, rnd, q, dl. split; [repeat split; assumption|]. split; [exact Hn|].
        destruct Ek as [Ek|[Ek|Ek]]; rewrite Ek; exact Hc.
      * intros dl' Hd' Hk. inversion Hd'; subst dl'. destruct Ek as [Ek|[Ek|Ek]]; congruence.
    + right. exists i0. split.
      * exists now, rnd, q, dl. split; [repeat split; assumption|]. split; [exact Hn|]. rewrite Ek. exact Hc.
      * intros dl' Hd' Hk. inversion Hd'; subst dl'. congruence.
    + right. exists i0. split.
      * exists now, rnd, q, dl. split; [repeat split; assumption|]. split; [exact Hn|]. rewrite Ek. exact Hc.
      * intros dl' Hd' Hk. inversion Hd'; subst dl'. congruence.
  - destruct (tunnel_dns_nodispatch login unz c st now rnd q Ed) as (o & -> & _).
    intros H; inversion H; subst. contradiction.
Qed.

Lemma dns_acting_auth c st e i : dns_acting c st e i ->
  slot_ok st (match e with EDns now _ _ => now | _ => 0 end) i /\
  (forall now rnd q dl, dns_req c e now rnd q dl -> cmd_of (chr (req_inb q dl) 0) <> CL ->
     u_auth (getu st i) = true).
Proof.
  intros (now & rnd & q & dl & (He & Hd & Hdl) & Hn & Hc). subst e.
  assert (Hk : forall k, named_user q dl = Some (Z.of_nat i) -> cmd_of (chr (req_inb q dl) 0) = k ->
               k <> CV /\ k <> CZ /\ k <> CY /\ k <> COther).
  { intros k Hn' Ek. rewrite (named_of _ _ _ Ek) in Hn'. destruct k; try discriminate; repeat split; discriminate. }
  destruct (Hk _ Hn eq_refl) as (K1 & K2 & K3 & K4).
  split.
  - pose proof (cmd_check_false_cuip _ _ _ _ _ _ K1 K2 K3 K4 Hc) as Hu. apply cuip_nat in Hu. tauto.
  - intros now' rnd' q' dl' (He' & Hd' & _) Hl. inversion He'; subst now' rnd' q'.
    rewrite Hd in Hd'. inversion Hd'; subst dl'.
    pose proof (cmd_check_false_auth _ _ _ _ _ _ K1 K2 K3 K4 Hl Hc) as Ha. rewrite Nat2Z.id in Ha. exact Ha.
Qed.

Theorem raw_change_authorized c st now from pk st' outs : step c st (ERaw now from pk) = (st', outs) ->
  st' <> st \/ outs <> [] ->
  (exists i, rawlogin_event c st (ERaw now from pk) i) \/
  (exists i, rawdata_event c st (ERaw now from pk) i) \/
  (exists i, rawping_event c st (ERaw now from pk) i).
Proof.
  simpl. destruct (raw_decode login unz c st now pk from) as [r|] eqn:Er.
  - intros -> Hne. apply raw_effect_spec in Er.
    destruct Er as [ | i0 Hh Hok | i0 st' outs Hh Hc Hr SS | i0 Hh Hc Hr].
    + destruct Hne; contradiction.
    + left. exists i0, now, from, pk. split; [reflexivity|]. repeat (split; [assumption|]). assumption.
    + right; left. exists i0, now, from, pk. split; [reflexivity|]. repeat (split; [assumption|]). assumption.
    + right; right. exists i0, now, from, pk. split; [reflexivity|]. repeat (split; [assumption|]). assumption.
  - intros H; inversion H; subst. intros [Hne|Hne]; contradiction.
Qed.

(* option fields change only by allocation or an accepted S / O / N of that session *)
Theorem options_only_by_option_cmd c st e st' outs i : step c st e = (st', outs) ->
  u_enc (getu st' i) <> u_enc (getu st i) \/ u_downenc (getu st' i) <> u_downenc (getu st i) \/
  u_lazy (getu st' i) <> u_lazy (getu st i) \/ u_fragsize (getu st' i) <> u_fragsize (getu st i) \/
  u_locked (getu st' i) <> u_locked (getu st i) ->
  alloc_event c st e i \/ option_event c st e i.
Proof.
  intros H D. destruct (step_slot_change _ _ _ _ _ H) as [_ S]. specialize (S i).
  destruct S as [Hs | now rnd q He Ha Hu | now rnd q He Hl Hu | Ho Hi | now from pk He Hr Hu].
  - apply sec_fields in Hs. destruct Hs as (_ & _ & _ & H4 & _ & _ & _ & _ & H9 & H10 & H11 & H12 & _).
    exfalso. destruct D as [D|[D|[D|[D|D]]]]; congruence.
  - left; exact Ha.
  - rewrite Hu in D. simpl in D. exfalso. destruct D as [D|[D|[D|[D|D]]]]; congruence.
  - right; exact Ho.
  - rewrite Hu in D. simpl in D. exfalso. destruct D as [D|[D|[D|[D|D]]]]; congruence.
Qed.

Theorem conn_raw_only_by_raw_login c st e st' outs i : step c st e = (st', outs) ->
  u_conn (getu st i) = CONN_DNS -> u_conn (getu st' i) = CONN_RAW -> rawlogin_event c st e i.
Proof.
  intros H F T. destruct (step_slot_change _ _ _ _ _ H) as [_ S]. specialize (S i).
  destruct S as [Hs | now rnd q He Ha Hu | now rnd q He Hl Hu | Ho Hi | now from pk He Hr Hu].
  - apply sec_fields in Hs. destruct Hs as (_ & _ & _ & _ & _ & _ & _ & _ & _ & _ & _ & _ & Hs). congruence.
  - rewrite Hu in T. discriminate.
  - rewrite Hu in T. simpl in T. congruence.
  - unfold ident in Hi. inversion Hi. congruence.
  - exact Hr.
Qed.

Theorem host_only_by_alloc_or_raw_login c st e st' outs i : step c st e = (st', outs) ->
  u_host (getu st' i) <> u_host (getu st i) -> alloc_event c st e i \/ rawlogin_event c st e i.
Proof.
  intros H D. destruct (step_slot_change _ _ _ _ _ H) as [_ S]. specialize (S i).
  destruct S as [Hs | now rnd q He Ha Hu | now rnd q He Hl Hu | Ho Hi | now from pk He Hr Hu].
  - apply sec_fields in Hs. destruct Hs as (_ & _ & _ & _ & _ & _ & _ & Hs & _). congruence.
  - left; exact Ha.
  - rewrite Hu in D. simpl in D. congruence.
  - unfold ident in Hi. inversion Hi. congruence.
  - right; exact Hr.
Qed.

(* tunnel addresses, the disabled flag: never *)
Theorem tun_ip_stable c st e st' outs i : step c st e = (st', outs) ->
  u_tun_ip (getu st' i) = u_tun_ip (getu st i) /\ u_disabled (getu st' i) = u_disabled (getu st i).
Proof.
  intros H. destruct (step_slot_change _ _ _ _ _ H) as [_ S]. specialize (S i).
  destruct S as [Hs | now rnd q He Ha Hu | now rnd q He Hl Hu | Ho Hi | now from pk He Hr Hu].
  - apply sec_fields in Hs. tauto.
  - rewrite Hu. split; reflexivity.
  - rewrite Hu. split; reflexivity.
  - unfold ident in Hi. inversion Hi. split; congruence.
  - rewrite Hu. split; reflexivity.
Qed.

(* ---- traces ------------------------------------------------------------------------------------------ *)

Definition run (c : cfg) (st : sstate) (es : list event) : sstate :=
  fold_left (fun s e => fst (step c s e)) es st.

Lemma run_app c st es1 es2 : run c st (es1 ++ es2) = run c (run c st es1) es2.
Proof. unfold run. apply fold_left_app. Qed.

Lemma run_snoc c st es e : run c st (es ++ [e]) = fst (step c (run c st es) e).
Proof. rewrite run_app. reflexivity. Qed.

Lemma step_pair c st e : step c st e = (fst (step c st e), snd (step c st e)).
Proof. destruct (step c st e); reflexivity. Qed.

Lemma getu_init ips i : getu (init_state ips) i = user_init (nth i ips 0).
Proof.
  unfold getu, init_state. apply map_nth.
Qed.

Theorem run_invariant c ips es :
  length (run c (init_state ips) es) = length ips /\
  map u_tun_ip (run c (init_state ips) es) = ips /\
  forall i, u_disabled (getu (run c (init_state ips) es) i) = false.
Proof.
  induction es as [|e es IH] using rev_ind.
  - simpl. split; [unfold init_state; apply map_length|]. split.
    + unfold init_state. rewrite map_map. simpl. apply map_id.
    + intros i. rewrite getu_init. reflexivity.
  - rewrite run_snoc. set (st := run c (init_state ips) es) in *.
    destruct IH as (L & M & D). pose proof (step_pair c st e) as Hs.
    destruct (step_slot_change _ _ _ _ _ Hs) as [L' _].
    split; [congruence|]. split.
    + rewrite <- M. apply (nth_ext _ _ 0 0); [rewrite !map_length; exact L'|].
      intros n Hn. rewrite map_length in Hn.
      change 0 with (u_tun_ip (user_init 0)). rewrite !map_nth.
      exact (proj1 (tun_ip_stable _ _ _ _ _ n Hs)).
    + intros i. rewrite (proj2 (tun_ip_stable _ _ _ _ _ i Hs)). apply D.
Qed.

Lemma login_not_alloc c st e i j : login_event c st e i -> alloc_event c st e j -> False.
Proof.
  intros (now & rnd & q & dl & (He & Hd & _) & Ek & _) (now' & rnd' & q' & dl' & (He' & Hd' & _) & Ek' & _).
  rewrite He in He'. inversion He'; subst. rewrite Hd in Hd'. inversion Hd'; subst. congruence.
Qed.

(* ghost: P held for slot i at some event of the trace, and slot i was not allocated again
   afterwards *)
Inductive since (c : cfg) (st0 : sstate) (P : sstate -> event -> nat -> Prop) : list event -> nat -> Prop :=
| S_now es e i : P (run c st0 es) e i -> since c st0 P (es ++ [e]) i
| S_keep es e i : since c st0 P es i -> ~ alloc_event c (run c st0 es) e i -> since c st0 P (es ++ [e]) i.

Theorem auth_trace c ips es i :
  u_auth (getu (run c (init_state ips) es) i) = true -> since c (init_state ips) (login_event c) es i.
Proof.
  induction es as [|e es IH] using rev_ind.
  - simpl. rewrite getu_init. discriminate.
  - rewrite run_snoc. set (st := run c (init_state ips) es) in *.
    pose proof (step_pair c st e) as Hs. intros T.
    destruct (u_auth (getu st i)) eqn:F.
    + apply S_keep; [apply IH; reflexivity|]. intros Ha.
      destruct (alloc_clears _ _ _ _ _ _ Hs Ha) as (now & rnd & q & _ & _ & _ & Hf & _). congruence.
    + apply S_now. eapply auth_only_by_login; eassumption.
Qed.

Theorem authraw_trace c ips es i :
  u_auth_raw (getu (run c (init_state ips) es) i) = true -> since c (init_state ips) (rawlogin_event c) es i.
Proof.
  induction es as [|e es IH] using rev_ind.
  - simpl. rewrite getu_init. discriminate.
  - rewrite run_snoc. set (st := run c (init_state ips) es) in *.
    pose proof (step_pair c st e) as Hs. intros T.
    destruct (u_auth_raw (getu st i)) eqn:F.
    + apply S_keep; [apply IH; reflexivity|]. intros Ha.
      destruct (alloc_clears _ _ _ _ _ _ Hs Ha) as (now & rnd & q & _ & _ & _ & _ & Hf & _). congruence.
    + apply S_now. eapply authraw_only_by_raw_login; eassumption.
Qed.

(* raw-mode authentication is never held without the DNS-mode one *)
Theorem authraw_implies_auth c ips es i :
  u_auth_raw (getu (run c (init_state ips) es) i) = true -> u_auth (getu (run c (init_state ips) es) i) = true.
Proof.
  induction es as [|e es IH] using rev_ind.
  - simpl. rewrite getu_init. discriminate.
  - rewrite run_snoc. set (st := run c (init_state ips) es) in *.
    pose proof (step_pair c st e) as Hs.
    destruct (step_slot_change _ _ _ _ _ Hs) as [_ S]. specialize (S i).
    destruct S as [Hsame | now rnd q He Ha Hu | now rnd q He Hl Hu | Ho Hi | now from pk He Hr Hu].
    + apply sec_fields in Hsame. destruct Hsame as (_ & H2 & H3 & _). rewrite H2, H3. exact IH.
    + rewrite Hu. discriminate.
    + rewrite Hu. reflexivity.
    + unfold ident in Hi. inversion Hi as [[H1 H2 H3 H4 H5 H6 H7 H8 H9]]. rewrite H2, H3. exact IH.
    + rewrite Hu. intros _. destruct Hr as (now' & from' & pk' & _ & _ & (_ & _ & Hau & _)). exact Hau.
Qed.

Lemma seed_stable c st es i :
  (forall a e' b, es = a ++ e' :: b -> ~ alloc_event c (run c st a) e' i) ->
  u_seed (getu (run c st es) i) = u_seed (getu st i).
Proof.
  induction es as [|e es IH] using rev_ind; intros Hn; [reflexivity|].
  rewrite run_snoc. rewrite <- IH.
  - pose proof (step_pair c (run c st es) e) as Hs.
    destruct (N.eq_dec (u_seed (getu (fst (step c (run c st es) e)) i)) (u_seed (getu (run c st es) i))) as [E|E];
      [exact E|exfalso].
    apply (Hn es e []); [reflexivity|]. eapply seed_only_by_alloc; [exact Hs|right; exact E].
  - intros a e' b Hb. apply (Hn a e' (b ++ [e])). rewrite Hb, <- app_assoc. reflexivity.
Qed.

(* unfolding the ghost: the event, and no allocation since *)
Theorem since_unfold c st0 P es i : since c st0 P es i ->
  exists es1 e es2, es = es1 ++ e :: es2 /\ P (run c st0 es1) e i /\
    (forall a e' b, es2 = a ++ e' :: b -> ~ alloc_event c (run c st0 (es1 ++ e :: a)) e' i).
Proof.
  induction 1 as [es e i Hl | es e i Hab IH Hna].
  - exists es, e, []. split; [reflexivity|]. split; [exact Hl|].
    intros a e' b Hb. destruct a; discriminate.
  - destruct IH as (es1 & e1 & es2 & -> & Hl & Hn).
    exists es1, e1, (es2 ++ [e]). split; [rewrite <- app_assoc; reflexivity|]. split; [exact Hl|].
    intros a e' b Hb.
    destruct (snoc_split es2 e a e' b Hb) as [(-> & -> & ->)|(b' & -> & ->)].
    + exact Hna.
    + apply (Hn a e' b'). reflexivity.
Qed.

(* the challenge a logged-in session answered is the one it still holds *)
Theorem auth_trace_seed c ips es i :
  u_auth (getu (run c (init_state ips) es) i) = true ->
  exists es1 e es2, es = es1 ++ e :: es2 /\ login_event c (run c (init_state ips) es1) e i /\
    (forall a e' b, es2 = a ++ e' :: b -> ~ alloc_event c (run c (init_state ips) (es1 ++ e :: a)) e' i) /\
    u_seed (getu (run c (init_state ips) es) i) = u_seed (getu (run c (init_state ips) es1) i).
Proof.
  intros T. apply auth_trace in T. apply since_unfold in T.
  destruct T as (es1 & e & es2 & -> & Hl & Hn). exists es1, e, es2.
  split; [reflexivity|]. split; [exact Hl|]. split; [exact Hn|].
  change (es1 ++ e :: es2) with (es1 ++ [e] ++ es2). rewrite app_assoc, run_app.
  rewrite seed_stable.
  - rewrite run_snoc. pose proof (step_pair c (run c (init_state ips) es1) e) as Hs.
    destruct (N.eq_dec (u_seed (getu (fst (step c (run c (init_state ips) es1) e)) i))
                        (u_seed (getu (run c (init_state ips) es1) i))) as [E|E]; [exact E|exfalso].
    eapply login_not_alloc; [exact Hl|]. eapply seed_only_by_alloc; [exact Hs|right; exact E].
  - intros a e' b Hb. rewrite <- run_app, <- app_assoc. apply (Hn a e' b Hb).
Qed.

End WithOracles.
