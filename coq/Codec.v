(* Codec.v -- executable model of src/base32.c, base64.c, base64u.c (sed of base64.c),
   base128.c: encoders with capacity / back-off, decoders stopping at capacity, length or NUL.
   Model only; proofs are in CodecProofs.v.  Alphabets come from Generated/SrcConsts.v. *)
From Coq Require Import List NArith Arith Bool.
From Iodine Require Import Generated.SrcConsts.
Import ListNotations.
Local Open Scope N_scope.

(* A codec: bits per encoded character, alphabet tables used for the reverse table
   (the C fills rev[] from each table in turn, index ascending), alphabet used for output. *)
Record codec := {
  cbits : N;               (* 5, 6 or 7 *)
  calpha : list N;         (* encoding table cbXX *)
  crevtab : list N         (* the 256-entry reverse table built by *_reverse_init *)
}.

(* reverse table as built by *_reverse_init: memset(rev, 0, 256), then for i < n, for each
   table t in turn: rev[t[i]] = i  (later assignments win) *)
Fixpoint upd (l : list N) (i : nat) (v : N) : list N :=
  match l, i with
  | [], _ => []
  | _ :: t, O => v :: t
  | h :: t, S i' => h :: upd t i' v
  end.

Definition mkrevtab (tabs : list (list N)) (n : N) : list N :=
  fold_left (fun acc i =>
               fold_left (fun acc' t => upd acc' (N.to_nat (nth i t 0)) (N.of_nat i)) tabs acc)
            (seq 0 (N.to_nat n)) (repeat 0 256).

Definition rev32tab := mkrevtab [src_cb32; src_cb32_ucase] src_rev32_n.
Definition rev64tab := mkrevtab [src_cb64] src_rev64_n.
Definition rev64utab := mkrevtab [src_cb64u] src_rev64_n.
Definition rev128tab := mkrevtab [src_cb128] src_rev128_n.

Definition b32 : codec := {| cbits := 5; calpha := src_cb32; crevtab := rev32tab |}.
Definition b64 : codec := {| cbits := 6; calpha := src_cb64; crevtab := rev64tab |}.
Definition b64u : codec := {| cbits := 6; calpha := src_cb64u; crevtab := rev64utab |}.
Definition b128 : codec := {| cbits := 7; calpha := src_cb128; crevtab := rev128tab |}.

(* number of encoder phases (chars per block) / decoder phases (bytes per block) *)
Definition ephases (k : N) : N := if k =? 6 then 4 else 8.
Definition dphases (k : N) : N := if k =? 6 then 3 else k.

(* --- encoder ----------------------------------------------------------------------- *)

(* bit offset, inside the current input byte, of the first bit of the char of phase j *)
Definition eoff (k j : N) : N := (k * j) mod 8.

(* value (0 .. 2^k-1) of the char emitted in phase j from the current byte a and the
   following byte b (0 when there is none: the C tests iin + 1 < size) *)
Definition echar (k j a b : N) : N :=
  ((a * 256 + b) / 2 ^ (16 - eoff k j - k)) mod 2 ^ k.

(* does phase j complete the current input byte (iin++)? *)
Definition eadv (k j : N) : bool := 8 <=? eoff k j + k.

Definition sym (c : codec) (v : N) : N := nth (N.to_nat v) (calpha c) 0.

(* enc_go c cap j d: the C loop from phase j with [cap] output chars left and input d.
   Returns (chars, input bytes consumed).  A phase that does not complete a byte and is
   followed by an exhausted capacity is undone ("previous char is useless", iout--). *)
Fixpoint enc_go (c : codec) (cap : nat) (j : N) (d : list N) : list N * nat :=
  match cap, d with
  | O, _ => ([], O)
  | _, [] => ([], O)
  | S cap', a :: d' =>
      let k := cbits c in
      let ch := sym c (echar k j a (hd 0 d')) in
      let j' := (j + 1) mod ephases k in
      if eadv k j then
        let r := enc_go c cap' j' d' in (ch :: fst r, S (snd r))
      else
        match cap' with
        | O => ([], O)
        | _ => let r := enc_go c cap' j' d in (ch :: fst r, snd r)
        end
  end.

(* encode c cap d = (emitted chars, *buflen after the call = consumed input bytes);
   the C returns (length chars) and writes NUL at buf[length chars]. *)
Definition encode (c : codec) (cap : nat) (d : list N) : list N * nat := enc_go c cap 0 d.

(* --- decoder ----------------------------------------------------------------------- *)

Definition rev (c : codec) (ch : N) : N := nth (N.to_nat ch) (crevtab c) 0.

(* first encoded char used by output byte i of a block, and bit offset inside it *)
Definition dfirst (k i : N) : N := (8 * i) / k.
Definition doff (k i : N) : N := (8 * i) mod k.
(* chars needed (2 or 3) and chars used up (iin += ...) by decoder phase i *)
Definition dneed (k i : N) : nat := if doff k i + 8 <=? 2 * k then 2%nat else 3%nat.
Definition dadv (k i : N) : nat := N.to_nat (dfirst k (i + 1) - dfirst k i).

Definition dbyte (k i v0 v1 v2 : N) : N :=
  if doff k i + 8 <=? 2 * k
  then ((v0 mod 2 ^ k * 2 ^ k + v1 mod 2 ^ k) / 2 ^ (2 * k - doff k i - 8)) mod 256
  else ((v0 mod 2 ^ k * 2 ^ (2 * k) + v1 mod 2 ^ k * 2 ^ k + v2 mod 2 ^ k) / 2 ^ (3 * k - doff k i - 8)) mod 256.

(* dec_go c cap i s: the C loop from phase i with [cap] output bytes left; s = the slen
   chars still unread.  Stops when capacity is used up, fewer than dneed chars remain, or
   one of them is NUL. *)
Fixpoint dec_go (c : codec) (cap : nat) (i : N) (s : list N) : list N :=
  match cap with
  | O => []
  | S cap' =>
      let k := cbits c in
      let need := dneed k i in
      let hdr := firstn need s in
      if (length hdr <? need)%nat then []
      else if existsb (fun x => x =? 0) hdr then []
      else
        dbyte k i (rev c (nth 0 hdr 0)) (rev c (nth 1 hdr 0)) (rev c (nth 2 hdr 0))
          :: dec_go c cap' ((i + 1) mod dphases k) (skipn (dadv k i) s)
  end.

Definition decode (c : codec) (cap : nat) (s : list N) : list N := dec_go c cap 0 s.

(* b32_5to8 / b32_8to5 (used on raw request bytes by the server) *)
Definition b32_5to8 (v : N) : N := sym b32 (v mod 32).
Definition b32_8to5 (ch : N) : N := rev b32 ch.

(* documented lengths *)
Definition enclen (k : N) (n : nat) : nat := N.to_nat ((8 * N.of_nat n + k - 1) / k).

(* successive chunks: what a sender does with a long payload -- encode what fits, continue
   with the remainder.  None = no progress (a chunk consumed nothing) or out of fuel. *)
Fixpoint chunks (c : codec) (cap : nat) (fuel : nat) (d : list N) : option (list (list N)) :=
  match d with
  | [] => Some []
  | _ =>
    match fuel with
    | O => None
    | S f =>
        let r := encode c cap d in
        match snd r with
        | O => None
        | n => option_map (cons (fst r)) (chunks c cap f (skipn n d))
        end
    end
  end.

Definition toupper (ch : N) : N := if (97 <=? ch) && (ch <=? 122) then ch - 32 else ch.
