#!/usr/bin/env python3
"""Writes MANIFEST.json from the table below (kept in one place so it stays valid)."""
import json, os
HERE = os.path.dirname(os.path.dirname(os.path.abspath(__file__)))

CHECKS = {
 'C07': dict(
   text='Machine-checked Coq theorems (all byte strings, all capacities, all four codecs) about an executable Gallina model of the '
        'encoder/decoder loops: round-trip, alphabet purity, capacity bound, length ratio, exact consumed count, lossless chunking. '
        'Alphabets are regenerated from the source each run; the model is tied to base32.c/base64.c/base128.c by a differential '
        'correspondence run (exhaustive over every adjacent byte pair in every block position).',
   note='Trusts: Coq kernel/vm_compute; translator for alphabets; hand-written loop model validated (not proved) against the C by '
        'the correspondence run; extraction (ExtrOcamlBasic) + OCaml glue; gcc. Memory effects are only observed via guard bytes/ASan.',
   technique='Coq proof (induction over blocks + lia) on a Gallina model, differential correspondence against the C',
   design='4/C07'),
}
NOT_YET = {}

def main():
    props = [json.loads(l)['id'] for l in open(os.path.join(HERE, 'properties.jsonl'))]
    checks = []
    na = []
    for p in props:
        if p in CHECKS:
            c = CHECKS[p]
            checks.append(dict(property_id=p, quick_cmd='./check %s --tier quick' % p,
                               thorough_cmd='./check %s --tier thorough' % p,
                               evidence_file='evidence/%s.json' % p,
                               replay_cmd_template='./check replay {path}', engine='coq+correspondence',
                               level_claimed=dict(category='proof', text=c['text'], design_ref=c['design']),
                               level_note=c['note'], technique=c['technique']))
        else:
            na.append(dict(property_id=p, reason=NOT_YET.get(p, 'check not built yet in this round (planned, see DESIGN.md section 4); no claim is made')))
    m = dict(version=1,
             setup_cmd='./check setup',
             hooks=dict(guard='IODINE_VERIF', enable='harness builds pass -DIODINE_VERIF (no source hooks exist; statics are reached by #include of the .c file)',
                        baseline_off_cmd='make -C /repo clean >/dev/null; make -C /repo && make -C /repo test', source_commits=[], add_only=True),
             engines=[dict(name='coq+correspondence', path='check', serves_properties=sorted(CHECKS),
                           kind_free_text='Coq 8.16 proofs about a Gallina model (coq/), translator tools/gen_consts.py, extracted OCaml model driver, C harnesses built from /repo working tree')],
             checks=checks, not_applicable=na,
             notes='All checks: ./check <ID> [--tier quick|thorough]; seeds via VERIF_SEED. See DESIGN.md.')
    json.dump(m, open(os.path.join(HERE, 'MANIFEST.json'), 'w'), indent=1)

if __name__ == '__main__':
    main()
