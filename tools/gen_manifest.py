#!/usr/bin/env python3
"""Writes MANIFEST.json from the table below (kept in one place so it stays valid)."""
import json, os
HERE = os.path.dirname(os.path.dirname(os.path.abspath(__file__)))

CHECKS = {
 'C07': dict(
   text='Machine-checked Coq theorems (all byte strings, all capacities, all four codecs) about an executable Gallina model of the '
        'encoder/decoder loops: round-trip, alphabet purity, capacity bound, length ratio, exact consumed count, lossless chunking. '
        'Alphabets are regenerated from the source each run; the model is tied to base32.c/base64.c/base128.c by a differential '
        'correspondence run (exhaustive over every adjacent byte pair in every block position).',
   note='Trusts: Coq kernel/vm_compute; translator for alphabets; hand-written loop model validated (not proved) against the C by '
        'the correspondence run; extraction (ExtrOcamlBasic) + OCaml glue; gcc. Memory effects are only observed via guard bytes/ASan.',
   technique='Coq proof (induction over blocks + lia) on a Gallina model, differential correspondence against the C',
   design='4/C07'),
}
CHECKS['C13'] = dict(
   text='Coq theorems (all login-reply byte strings, all interface names, either outcome of system()) about a Gallina model of the '
        'sscanf format, inet_pton/inet_addr validation and command construction of handshake_login/tun_setip/tun_setmtu: every string '
        'handed to system() is the fixed ifconfig template with strict dotted quads / an mtu in 201..1500 in the peer positions, no '
        'shell metacharacter comes from the reply. Format strings, call order and which arguments are validated are re-read from '
        'the source each run; the model runs against the real handshake_login (client.c TU, wrapped system()). C13_handshake_commands lifts '
        'this to the whole handshake of the sequencing model (coq/Handshake.v, compared with the real client_handshake incl. its system() strings in C06): '
        'for every script of datagrams and time-outs every logged system() argument satisfies the command predicate, and only the login step adds any.',
   note='Trusts: modelled glibc behaviour of sscanf %64[^-]/%d, inet_pton, inet_addr, inet_ntoa, snprintf (differentially tested '
        'against the libc in the sandbox, not proved); system() return value is a parameter; LINUX branch only; Coq kernel; translator; extraction; gcc.',
   technique='Coq proof on a Gallina model of parsing/validation/command construction, differential correspondence against the real client code',
   design='4/C13')
CHECKS['C17'] = dict(
   text='Coq theorems for all strings: check_topdomain accepts exactly the declaratively specified domains (3..128 chars, label '
        'syntax, optional leading wildcard); query_datalen returns n exactly when the name splits at a label boundary into n data chars '
        'and a case-insensitive (wildcard-aware) match of the domain, n unique, None exactly when no split matches; and the server dispatcher '
        '(Server.tunnel_dns) treats a query as tunnel traffic exactly when query_datalen is Some n (n = 0 included: NS answered, tunnel types to the '
        'handler), forwards it exactly when it is None and forwarding is configured, never both. Limits are re-read from the source; tied to common.c by '
        'exhaustive small-string and random long-name correspondence plus an independent reference matcher, to tunnel_dns of iodined.c by targeted '
        'server histories (model per event + oracle from the property text), and to the two call sites ("wildcard: server only", theorems '
        'C17_client_never_wildcard / C17_server_only_wildcard) by running the real main() of iodine.c and iodined.c on scripted command lines.',
   note='Trusts: C-locale tolower/isdigit (no setlocale in the source); at data length 0 a tunnel-type query is handled but produces no output, '
        'so the observable there is the NS answer and forwarding; Coq kernel; translator; extraction; gcc.',
   technique='Coq proof (induction on reversed strings / label lists), differential correspondence, independent reference matcher',
   design='4/C17')
CHECKS['C20'] = dict(
   text='Coq theorems over arbitrary sequences of forwarded queries: the ring equals the last 16 puts (refinement), a reply for an id '
        'distinct among the last 16 goes to exactly that asker, a lookup only ever returns a remembered asker or the never-written zero '
        'slot, the forwarded datagram parses to the same id/name/type and replies are relayed byte-identical. Ring size re-read from the '
        'source; tied to fw_query.c and forward_query/tunnel_bind (iodined.c TU) by exhaustive bounded-depth and random long sequences.',
   note='Trusts: sendto() with address length 0 reaches nobody (OS behaviour); generated histories use IPv4 askers, an IPv6 asker (repaired defect D12) is '
        'judged by a fixed probe case on the implementation only; Coq kernel; translator; extraction; gcc.',
   technique='Coq proof (ring invariant by induction, refinement to last-16-puts spec), differential correspondence',
   design='4/C20')
CHECKS['C18'] = dict(
   text='Coq theorems for every 32-bit server address and every netmask /8../30 about a Gallina model of init_users computed exactly as '
        'the C does on x86-64 (byte-swapped in_addr_t arithmetic, the one-time skip): session count = min(16, size-3); every assigned address '
        'is netaddr+k with 1 <= k <= size-2, strictly increasing (distinct), never the server address, no carry out of the low octet; '
        'find_user_by_ip returns exactly the least live/authenticated/enabled owner, unique for pool addresses; allocation takes exactly '
        'the first free-or-expired slot. USERS/60/3 and the 8..30 range check are re-read from the source.',
   note='Trusts: little-endian x86-64 representation of in_addr_t, inet_addr("0.0.0.k") = k<<24 (k <= 17), calloc zeroing; the netmask range '
        'check sits in main() of iodined.c and is tied by running that real main() on command lines a.b.c.d/N for every N (startup stage); '
        'Coq kernel; translator; extraction; gcc.',
   technique='Coq proof (arithmetic characterisation of byte swap/masks, induction over the assignment loop), differential correspondence exhaustive for /16../30 at thorough tier',
   design='4/C18')
CHECKS['C19'] = dict(
   text='Coq theorems for all passwords and all 2^32 challenges about a Gallina model of login_calculate (word-wise LE load, ntohl, xor, '
        'htonl over the 32-byte zero-padded password, then an RFC 1321 MD5 written from the RFC): equals the documented byte-level '
        'formula md5(pad32(p) xor 8 x be32(s)); reads nothing beyond 32 bytes; the 32-byte block is injective in the padded password and '
        'in the challenge; raw login uses s+1 / s-1 with explicit wrap and the server/client accept exactly those; the glue that carries the challenge '
        'from the server\'s version reply (big-endian bytes 4..7) through the client\'s reassembly expression (re-read from the source term by term: index, '
        'mask, cast, shift; checked for all 256 patterns per byte incl. C99 shift definedness) into both logins is the identity for every int, so the login the '
        'client sends is the one the server computes; a session\'s challenge changes only when a version handshake claims the slot, so the raw login '
        'is checked against the challenge of the version reply; over the sequencing model of the handshake (coq/Handshake.v) the challenge handshake_version stores is, for every script of datagrams, '
        'the one cli_version reads from a datagram that fitted one of its version queries. RFC test vectors by computation. Tied to login.c, md5.c and the real handshake_version / handshake_login / '
        'send_raw_udp_login / version and login handlers by correspondence with hashlib as third oracle, also under ASan/UBSan.',
   note='Trusts: MD5 model tied to md5.c by correspondence and to the RFC by its 7 test vectors (no collision-resistance claim); signed '
        'overflow of seed+1/seed-1 at INT_MAX/INT_MIN wraps (gcc); Coq kernel; translator; extraction; gcc.',
   technique='Coq proof (byte/word arithmetic characterisation, injectivity of the xor block), differential correspondence + independent MD5',
   design='4/C19')
CHECKS['C08'] = dict(
   text='Coq theorems for every hostname limit L in 100..255, every accepted tunnel domain with |d|+24 <= L, all four codecs and every non-empty '
        'payload: the query name built for data chunks, probes and ping/version/login/set-fragsize messages is a legal DNS name of at most L-2 '
        'chars ending in the domain (labels 1..63, wire <= 255), carries a non-empty payload prefix of exactly the reported length, the query '
        'datagram decodes on the server to the same name/type/id, the label-boundary matcher (plain, other-case or wildcard server domain) '
        'finds the data part and unpack_data returns exactly that prefix. inline_dotify (in-place backward loop) proved equal to the forward '
        'spec; the server dispatcher hands exactly that data length to the handlers (C08_dispatcher_hands_on_data_part). Built on the C07 and C17 theorems. '
        'Tied to encoding.c/client.c/read.c/dns.c by correspondence over all (L, codec) and domain lengths, and to tunnel_dns/handle_null_request of iodined.c by '
        'scripted sessions (first label 1..63 chars x same/other-case/wildcard server domain x 4 codecs) whose upstream packets must reach the tun device byte for byte.',
   note='Trusts: the scripted sessions of the extraction stage use single-fragment packets and the framing stand-in for zlib; -M below |d|+8 underflows in the C and is outside the property; Coq kernel; translator; extraction; gcc.',
   technique='Coq proof (dotify loop invariant, putname/readname round trip, composition with codec and matcher theorems), differential correspondence',
   design='4/C08')
CHECKS['C01'] = dict(
   text='PARTIAL. Coq theorems about both fragment protocols as abstract transition systems with ghost packet numbers and an adversarial '
        'network (every chunk, header and ack ever sent may be lost, duplicated, re-ordered): under the network hypothesis N* (delay <= 3 '
        'packets, query freshness <= 2 packets, receiver <= 5 packets behind, <= 16 fragments) every buffer handed to uncompress() on either '
        'side is the complete in-order fragment sequence of ONE packet (inductive invariant, unbounded executions); fragments tile the '
        'packet bytes; raw-mode frame decodes to its payload; non-vacuity scripts; and a proved WITNESS that outside N* the reassembly logic '
        'alone mis-assembles (integrity then rests on zlib Adler-32, which is not modelled) -- so the "for all network behaviours" part of the '
        'statement is not proved. Tie: abstract rules proved equal to the decision expressions of Server.v/Client.v, and the real handlers (handle_data via its '
        'staged form, tunnel_dns via its staged form) proved to update their reassembly state exactly as the rules prescribe and to deliver exactly on "accepted and last flag"; the composed model '
        '(Tunnel.v = Client.v + Server.v + network) is run against the two real programs on random fault schedules over all configurations, '
        'and an implementation-level oracle (real zlib) checks every tun write against the packets offered at the peer. Client-to-client forwarding: the server\'s ring of '
        'pending downstream packets is proved to refine a bounded FIFO of byte strings and a packet forwarded to a busy session to enter its ring as the sender\'s stream '
        '(QueueProofs.v); 2-3 scripted sessions on the real server (checks/fwdlib.py) check every stream a recipient reassembles against the frames offered to it.',
   note='Trusts: the rest of the abstraction from Server.v/Client.v to ProtoUp.v/ProtoDown.v (ghost packet numbers, the message bag and the chunk '
        'construction of client send_chunk are by inspection; the reassembly steps and both ack rules are proved); zlib as an oracle (unz (zc p) = Some p); one client session; Coq kernel; translator; extraction; gcc.',
   technique='Coq proof (inductive invariant over an adversarial-network transition system, both directions) + refutation witness outside the hypothesis; whole-system differential correspondence and integrity oracle',
   design='4/C01')
CHECKS['C10'] = dict(
   text='Coq theorems for every legal label list, id, type and payload up to 4098 bytes: the query datagram (with or without EDNS0) and the '
        'answer datagram write_dns builds for NULL/PRIVATE/TXT/CNAME/A/MX/SRV, and the NS / A auxiliary answers, are accepted by an independent strict '
        'RFC 1035 parser written in Gallina (exact section counts, backward compression pointers to label starts only, labels <= 63, names <= 255, '
        'exact RDLENGTH and per-type RDATA shape, TXT strings tile RDATA) with the expected id, question, owner names and record types. The '
        'encoder model is tied to dns.c/iodined.c by byte-equality correspondence on the datagrams the real code emits; the strict parser is tied '
        'to an independent Python parser on malformed/well-formed corpora and mutants of real datagrams.',
   note='Trusts: the strict parser as the reading of RFC 1035 (two independent implementations agree); the root question name and tunnel domains '
        'over 252 wire bytes are outside the theorems (proved not well-formed, unreachable in the server); byte-ness of non-TXT RDATA rests on the '
        'correspondence; Coq kernel; translator; extraction; gcc.',
   technique='Coq proof (encoder output accepted by a strict Gallina RFC 1035 parser, for all names/payloads), differential correspondence, second independent parser',
   design='4/C10')
CHECKS['C02'] = dict(
   text='PARTIAL. Coq theorems: (A) for both fragment/ack state machines (abstract transition systems of C01), on a clean path every round '
        'makes progress; any sequence of packets of <= 16 fragments accepted while the receiver is at most 3 packets behind is handed to '
        'uncompress() exactly once each, complete, in the order accepted, after exactly n rounds per packet, ending synchronised; from any '
        'state reachable under N* with a packet in flight and the receiver at most 4 behind the packet is completed within n-j rounds '
        '(both directions). (B) the client select loop (ClientLoop.v): once more than a second has passed since the last chunk with a packet in flight, any wake-up '
        'of the loop except a lone datagram runs the timeout branch, so a busy tun device cannot starve the retransmit timer (repaired defect D18); for every state of the client model, four consecutive select timeouts end the sending state and the select timeout is '
        'positive and bounded. NOT proved: bounded TIME for the composition of both select loops with the network, the server sweep / lazy hold, '
        'resynchronisation when 5..8 packets behind. Those are decided by correspondence of '
        'Client.v/Server.v/Tunnel.v with the real programs on random fault schedules in virtual time plus an implementation-level oracle: '
        'clean-path exactly-once-in-order, after a fault prefix delivery resumes (at most 4 leading packets lost); a loop-level timed oracle: the real '
        'client_tunnel()/tunnel() select loops as coroutines over a virtual clock with fault windows and periodic tun offers; and the select-loop models of both programs '
        '(ClientLoop.lstep, ServerLoop.siter) run against the real client_tunnel() / tunnel() loops through a scripted select().',
   note='Trusts: abstraction of the concrete models to the abstract protocols (inspection + rule-tie lemmas of C01); virtual time (wrapped '
        'time/select) stands for real time; one client session; zlib as oracle; Coq kernel; translator; extraction; gcc.',
   technique='Coq proof (progress/exactly-once by induction over clean rounds; timer state machine lemmas) + whole-system differential correspondence and timed oracle on the real programs',
   design='4/C02')
CHECKS['C14'] = dict(
   text='Coq theorems over arbitrary event histories of the server model (Server.v: DNS queries, raw frames, tun packets, sweeps, ticks; any '
        'oracle for login/zlib): multiset ledger invariant -- for every query instance (address incl. port, id, name, type), answers sent + '
        'copies still held <= copies received; events that carry no query only answer held queries; at most two queries (plus one remembered '
        'duplicate each) held per session; lazy mode answers the older held query first, immediate mode answers at once or parks for the sweep; '
        'id 0 ping/data queries are ignored and never held. Tied to iodined.c by per-event correspondence on server histories, by running the select-loop model '
        '(ServerLoop.siter: clear loop, tun back-pressure, handler order, final sweep) against the REAL tunnel() loop through a scripted select(), and by an '
        'implementation-level multiset oracle that parses every emitted datagram and matches it against unanswered received queries.',
   note='Trusts: the oracle matches on (address, id, dotted question name, type); a label containing a dot byte is compared as dotted text; '
        'Coq kernel; translator; extraction; gcc.',
   technique='Coq proof (ledger invariant by Permutation/multiset counting over every handler, induction over histories), differential correspondence, implementation-level multiset oracle',
   design='4/C14')
CHECKS['C09'] = dict(
   text='Coq theorems for all seven record types, every downstream codec letter, every well-formed question name and every payload of >= 2 bytes: '
        'what the client extracts from the answer write_dns builds is always a prefix of the payload with the question id/type/first name byte '
        'echoed (C09_prefix); it is the whole payload exactly when the length is within a proved capacity table (NULL/PRIVATE 4096; TXT '
        '2559/3071/3071/3583/4095; CNAME/A 153/183/183/214/153; MX/SRV >= 4096), tight for the single-record types; exactness is monotone '
        '(a shorter payload is delivered whenever a longer one is); the server always sends; the datagram size is a closed form and monotone in the '
        'payload (used by C11/C15). Tied to write_dns/dns_encode/read_dns_withq/dns_namedec by a two-phase run: every length on the real code with '
        'an oracle, then the model on the boundary subset.',
   note='Trusts: MX/SRV with a 4096-byte client buffer and payloads 2296..4096 (truncating case) is covered by the run, not by a theorem; payloads above 4096 '
        'outside the quantifier; Coq kernel; translator; extraction; gcc.',
   technique='Coq proof (encode/decode round trip per record type, tiling of TXT strings and host-name labels, capacity arithmetic), differential correspondence + implementation oracle',
   design='4/C09')
CHECKS['C12'] = dict(
   text='Coq theorems for every datagram dat and ANY two residues res1, res2 behind it in the receive buffer: readname, readtxtbin, readshort/readlong, '
        'dns_decode of queries and of answers (every type branch), client_extract, dns_get_id, the raw-frame views and the whole server step and client '
        'tunnel step give identical results on dat++res1 and dat++res2, equal to the step on dat alone; every byte of a decoded query name is a byte of the '
        'datagram or a dot; the echoed question of every answer is residue-independent. Tied to the C by runs that decode each datagram over several different '
        'residues (including the real tail of a longer predecessor) and by server/client histories with short-after-long datagrams; ASan at the thorough tier.',
   note='Trusts: the buffer abstraction (a C read at index i is rb buf i; reads past the buffer end are observed by ASan only); the client step theorem '
        'rests on a copy of the body of Client.tunnel_dns tied by a reflexivity lemma; Coq kernel; translator; extraction; gcc.',
   technique='Coq proof (congruence of every decoder under agreement on the datagram prefix, lifted to the server and client steps), differential correspondence over varied residues',
   design='4/C12')
CHECKS['C06'] = dict(
   text='PARTIAL (the decoders and the tunnel state machine are proved safe for all inputs; the handshake has a sequencing model with three theorems; compiler-level '
        'undefined behaviour and the buffer handling inside the handshake functions are covered by sanitizer runs only). '
        'Coq theorems for all inputs about the client-side decoders and the client tunnel model: every write stays within its destination (decoded answers, '
        'readname, readtxtbin, the 250x256 MX name array and its output loop, dns_namedec including its trailing NUL), fuel adequacy / termination of every '
        'loop with explicit work bounds, the reassembly buffer and counters stay in range over arbitrary event histories (given zlib output fits its buffer), and '
        'a reply that matches none of the recent queries leaves the tunnel state unchanged and writes nothing to tun. The handshake (handshake_waitdns and every '
        'step built on it, handshake_login, handshake_raw_udp, client_handshake) has a sequencing model over scripts of replies and time-outs: every step, '
        'and the whole handshake, sends a bounded number of queries for every script (5/3/21/12/27/48/7, 148 in all) and consumes the script from the front; '
        'datagrams whose DNS id reads as 0 change nothing wherever they arrive in the DNS steps; the raw login accepts only login(seed-1) (junk uses up an attempt: witness). Tied to the C by decoder, tunnel-history and scripted-handshake runs (model and real '
        'functions must end in the same state with the same return value, system() commands, queries sent and script left), all under ASan/UBSan.',
   note='Trusts: ASan/UBSan as the memory-safety observer for code without a model (the buffer handling inside the handshake functions, '
        'tun_setip, libc, zlib); per-datagram work bound is prose over formal pieces; Coq kernel; translator; extraction; gcc/clang runtime.',
   technique='Coq proof (bounds invariants of the decoder models, fuel adequacy, state invariant by induction over events; handshake sequencing in a state-and-script '
             'monad with bound and ignore predicates closed under bind / retry), differential correspondence, sanitizer runs',
   design='4/C05-C06')
CHECKS['C11'] = dict(
   text='PARTIAL (decision logic, pattern coverage, codec survival, binary search and fallback proved; the autodetect steps of the retry/time-out sequencing model compute exactly these decision functions on every consistently answering path (C11_handshake_computes_decisions, C11_test_sequencing); that a relay of the family answers as bounce/downcheck/probe say is validated by runs only; random-case '
        'member under an explicit hypothesis; three known findings). Coq theorems over the relay family (case keep/lower/upper/random x 8-bit clean/strip/reject x punctuation keep/mangle +/mangle _, on either side, size '
        'limits, EDNS0, record-type sets): the test patterns cover every alphabet character a deterministic relay can alter (by reflection over the 27 members), '
        'so the upstream codec selected survives the query side for every payload (via the C07 round trip); the downstream codec selected delivers every payload '
        'except Raw over TXT with "+" mangling (refuted with witness = known finding); Base32 survives all 36 members; the fragment-size binary search returns a size '
        'whose answers pass the limit (given C09 size monotonicity); every autodetect falls back to Base32/least type rather than failing. Decision logic, pattern '
        'strings, orders and probe constants are re-read from the source; the model predicts (rv, type, codecs, EDNS0, fragsize) of the REAL client_handshake run '
        'through a relay harness, and an oracle sends packets over the negotiated settings.',
   note='Trusts: the relay semantics of harness/h_handshake.c as the reading of the family; the composition of whole-handshake scripts with the relay family and the raw sub-handshake validated by '
        'runs only (single tests: C11_test_sequencing over coq/Handshake.v); random-case downstream half assumes the alteration was visible in the replies; three known findings (all forced options or the protocol constant); '
        'Coq kernel; translator; extraction; gcc.',
   technique='Coq proof (reflection over the finite relay family for coverage, lifted to all payloads by the codec round trip; binary-search invariant), differential correspondence against the real handshake through a relay, delivery oracle',
   design='4/C11')
CHECKS['C03'] = dict(
   text='Coq theorems over the server model for every state, event and oracle (login, zlib unconstrained): a session becomes authenticated only by a login '
        'request naming it whose 16 response bytes equal login(password, the seed currently stored in that slot), from the slot\'s source, within its lifetime; '
        'raw authentication only by a raw login frame with login(seed+1) on an already authenticated slot; a version request that (re)claims a slot clears '
        'authentication, raw authentication, the options lock and draws a fresh seed; every privileged effect (tun write, option/codec/fragsize change, switch to '
        'raw, disclosure of the server address by the I command, any state change caused by a DNS or raw event) implies an authenticated, live, source-checked slot; '
        'refused commands leave the state unchanged and produce exactly the refusal reply; trace theorems: an authenticated slot in any reachable state has a login '
        'event after its last allocation, and a replayed response only works if it equals the response for the current seed. Tied to iodined.c by per-event '
        'correspondence on server histories plus a monitor that re-derives "who was allowed to do this" from the inputs as the C reads them.',
   note='Trusts: login() as an uninterpreted oracle (C19 covers what it computes); the public A record for ns.<domain> carries the same address as the I reply '
        '(scope note, example in the property file); Coq kernel; translator; extraction; gcc.',
   technique='Coq proof (exact refusal/effect classification of every handler, per-step slot-change classification, trace induction with ghost "since"), differential correspondence, implementation-level monitor',
   design='4/C03')
CHECKS['C04'] = dict(
   text='Coq theorems over the server model: with source checking on, a request naming a session from another address or family is refused with the state unchanged; '
        'a slot\'s bound address changes only by allocation or a correct raw login; a tun packet (and a client-to-client forward) goes to exactly the least live, '
        'authenticated, enabled slot owning the destination address, unique on every reachable table (link to the C18 pool theorems), and changes no other slot; '
        'a slot is (re)allocated only when inactive or silent for more than the timeout and no lower slot is available, leaving all other slots untouched; '
        'requests to an expired session are refused; boundary behaviour at exactly 60 s stated. Tied to iodined.c/user.c by per-event correspondence on server '
        'histories and a monitor tracking address bindings, expiry and routing.',
   note='Trusts: after a raw-login rebind a query still held from the previous address is answered to that address (same session; the monitor accepts every '
        'address a slot was bound to since its allocation); Coq kernel; translator; extraction; gcc.',
   technique='Coq proof (frame lemmas per handler, uniqueness of the routing target from the C18 pool invariant, allocation characterisation), differential correspondence, implementation-level monitor',
   design='4/C04')
CHECKS['C15'] = dict(
   text='Coq theorems over arbitrary server histories (every step refined into logged micro-steps): every answer carrying tunnel data for a session has at most '
        'fragsize payload bytes for the fragsize currently in force for that session, including answers replayed from the answer cache (cache invariant: every '
        'cached answer obeys the current size; an accepted N flushes the cache); fragsize changes only by an accepted N (>= 2) or the reset of a version request; '
        'sizes below 2 are refused; fragments of a packet are numbered consecutively from 0 (wire number = number of accepted acks mod 16, an ack is accepted only '
        'for a fragment that was sent), every retransmission carries the same bytes, the pieces tile the compressed packet and the last flag is exactly on the final piece. '
        'Tied to iodined.c by per-event correspondence on server histories and a monitor that re-derives the size in force and re-tiles every packet byte-exactly.',
   note='Trusts: answers the harness client cannot decode (e.g. 4 KiB TXT) are invisible to the monitor, which then stops tracking that packet; fragment sizes above 4094 are '
        'clamped by the answer buffer; Coq kernel; translator; extraction; gcc.',
   technique='Coq proof (step refinement into micro-steps, cache and numbering invariants by induction over histories), differential correspondence, implementation-level monitor',
   design='4/C15')
CHECKS['C16'] = dict(
   text='Coq theorems over arbitrary server histories: the three memories are rings holding exactly the last 4 answers / 30 ping / 15 data fingerprints (sizes re-read '
        'from the source); a query whose answer is still cached gets the same payload again and nothing else changes; a ping or data query whose fingerprint is still '
        'remembered (case-insensitive for data, any DNS id, any source address) is answered with the one-byte marker and the state is unchanged; a duplicate of a pending '
        'query is only remembered as such; so re-delivery never appends upstream payload twice and never advances or rewinds the downstream stream, in any order and '
        'any number of times within the stated windows. Tied to iodined.c by per-event correspondence and a monitor with exact ring-save accounting.',
   note='Trusts: the ping theorem assumes the fingerprint saved (first label) equals the one compared on arrival, proved for one-label pings, the only shape the client builds; '
        'a ping whose data is split over two labels is not remembered (observed on the real code, corpus/C16/dotted-ping-not-remembered.cases; outside the quantifier: relays '
        'do not re-label); sessions with an undecodable answer are skipped by the monitor until the next version request; Coq kernel; translator; extraction; gcc.',
   technique='Coq proof (ring refinement to "last n saves", state-unchanged theorems for every suppressed/replayed case, trace induction), differential correspondence, implementation-level monitor',
   design='4/C16')
CHECKS['C05'] = dict(
   text='PARTIAL (index/length/termination safety of the modelled server code proved for all inputs; C-expression-level undefined behaviour, uninitialised reads, libc and zlib '
        'internals are observed by ASan/UBSan runs only). Coq theorems over arbitrary event lists of the server model (datagrams of arbitrary bytes and length, tun packets, sweeps; zlib output bounded by its '
        'buffer as the only hypothesis): every index, offset, length and counter of every session stays within the bounds of the C buffers (reassembly buffer, '
        'out-packet, queue, answer cache, query memories, held names) — buffer sizes re-read from the source; every output is within its buffer; parser bounds '
        '(names <= 255, unpack_data / the ping fingerprint leave room for the NUL); every user index that reaches users[] was range-checked; all loops run on '
        'sufficient fuel with explicit per-datagram work bounds; a datagram from a sender that fails a session\'s access check leaves that session bit-for-bit '
        'unchanged, so an established session survives any hostile run; char arithmetic ranges. Tied to iodined.c by per-event correspondence of plain AND '
        'ASan/UBSan builds against the model on hostile histories, plus a liveness oracle (a provably live session still answers) and raw-dispatch diagnostics.',
   note='Trusts: ASan/UBSan for C-expression-level undefined behaviour, uninitialised reads, libc and zlib internals; the guard table for in[k] reads is not formalised '
        '(loosening those guards shows as a model difference); tun packets of exactly 65536 bytes are excluded (stub artefact of the compress2 replacement); '
        'Coq kernel; translator; extraction; gcc/clang runtime.',
   technique='Coq proof (state invariant by induction over events, frame theorem for third-party datagrams, fuel adequacy), differential correspondence incl. sanitizer builds, liveness oracle',
   design='4/C05-C06')
NOT_YET = {}

def main():
    props = [json.loads(l)['id'] for l in open(os.path.join(HERE, 'properties.jsonl'))]
    checks = []
    na = []
    for p in props:
        if p in CHECKS:
            c = CHECKS[p]
            checks.append(dict(property_id=p, quick_cmd='./check %s --tier quick' % p,
                               thorough_cmd='./check %s --tier thorough' % p,
                               evidence_file='evidence/%s.json' % p,
                               replay_cmd_template='./check replay {path}', engine='coq+correspondence',
                               level_claimed=dict(category='proof', text=c['text'], design_ref=c['design']),
                               level_note=c['note'], technique=c['technique']))
        else:
            na.append(dict(property_id=p, reason=NOT_YET.get(p, 'check not built yet in this round (planned, see DESIGN.md section 4); no claim is made')))
    m = dict(version=1,
             setup_cmd='./check setup',
             hooks=dict(guard='IODINE_VERIF', enable='harness builds pass -DIODINE_VERIF (no source hooks exist; statics are reached by #include of the .c file)',
                        baseline_off_cmd='make -C /repo clean >/dev/null; make -C /repo && make -C /repo test', source_commits=[], add_only=True),
             engines=[dict(name='coq+correspondence', path='check', serves_properties=sorted(CHECKS),
                           kind_free_text='Coq 8.16 proofs about a Gallina model (coq/), translator tools/gen_consts.py, extracted OCaml model driver, C harnesses built from /repo working tree')],
             checks=checks, not_applicable=na,
             notes='All checks: ./check <ID> [--tier quick|thorough]; seeds via VERIF_SEED. See DESIGN.md.')
    json.dump(m, open(os.path.join(HERE, 'MANIFEST.json'), 'w'), indent=1)

if __name__ == '__main__':
    main()
