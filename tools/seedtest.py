#!/usr/bin/env python3
"""Confirm a seeded change and run the checks against it.

  tools/seedtest.py confirm <src-dir> <name>     copy patch/demo/meta into seeded/<name>/, confirm in a scratch
                                                 worktree that it applies, builds, passes `make test`, and run its demo
  tools/seedtest.py run <name> <ID> [<ID>...]    apply seeded/<name>/patch.diff to a scratch copy of /repo and run
                                                 ./check <ID> against it (VERIF_REPO); record the verdict in meta.json

The scratch copies live under /tmp and are removed afterwards.  /repo itself is never modified here
(equivalent to git -C /repo apply ...; ./check; git -C /repo checkout -- .  but safe to interrupt)."""
import json, os, shutil, subprocess, sys, time
HERE = os.path.dirname(os.path.dirname(os.path.abspath(__file__)))
SEEDED = os.path.join(HERE, 'seeded')


def sh(cmd, cwd=None, timeout=3600, env=None):
    p = subprocess.run(cmd, shell=True, cwd=cwd, stdout=subprocess.PIPE, stderr=subprocess.STDOUT, text=True, errors='replace', timeout=timeout, env=env)
    return p.returncode, p.stdout


def scratch(tag):
    d = '/tmp/seedscratch-%s-%d' % (tag, os.getpid())
    shutil.rmtree(d, ignore_errors=True)
    rc, out = sh('git -C /repo worktree add --detach %s HEAD' % d)
    if rc != 0:
        raise SystemExit('cannot create scratch worktree: ' + out)
    return d


def drop(d):
    sh('git -C /repo worktree remove --force %s' % d)
    shutil.rmtree(d, ignore_errors=True)
    sh('git -C /repo worktree prune')


def load_meta(dst):
    mp = os.path.join(dst, 'meta.json')
    try:
        return json.load(open(mp))
    except Exception:
        return {}


def confirm(src, name):
    dst = os.path.join(SEEDED, name)
    os.makedirs(dst, exist_ok=True)
    for fn in os.listdir(src):
        if fn in ('INSTRUCTIONS.txt', 'property.json'):
            continue
        sp = os.path.join(src, fn)
        if os.path.isfile(sp) and os.path.getsize(sp) < 400000:
            shutil.copy(sp, os.path.join(dst, fn))
    meta = load_meta(dst)
    d = scratch(name)
    try:
        rc, out = sh('git -C %s apply %s' % (d, os.path.join(dst, 'patch.diff')))
        meta['confirmed_applies'] = rc == 0
        rc, out = sh('make -C %s 2>&1 | tail -5' % d)
        rcb, _ = sh('test -x %s/bin/iodine -a -x %s/bin/iodined' % (d, d))
        meta['confirmed_builds'] = rcb == 0
        rc, out = sh('make -C %s test 2>&1 | tail -8' % d)
        meta['confirmed_tests'] = out.strip().splitlines()[-3:] if out else []
        meta['confirmed_tests_pass'] = ('Failures: 0' in out and 'Errors: 0' in out)
        demo = None
        for cand in ('demo.sh', 'demo.py'):
            if os.path.exists(os.path.join(dst, cand)):
                demo = cand
                break
        if demo:
            clean = scratch(name + '-clean')
            try:
                runner = 'bash' if demo.endswith('.sh') else 'python3'
                rc1, o1 = sh('%s %s %s 2>&1 | tail -25' % (runner, demo, d), cwd=dst, timeout=1800)
                rc2, o2 = sh('%s %s %s 2>&1 | tail -25' % (runner, demo, clean), cwd=dst, timeout=1800)
                meta['confirmed_demo'] = dict(patched_tail=o1[-1500:], clean_tail=o2[-1500:], differs=(o1 != o2))
            finally:
                drop(clean)
    finally:
        drop(d)
    json.dump(meta, open(os.path.join(dst, 'meta.json'), 'w'), indent=1)
    print(name, 'applies=%s builds=%s tests_pass=%s demo_differs=%s' % (
        meta.get('confirmed_applies'), meta.get('confirmed_builds'), meta.get('confirmed_tests_pass'),
        (meta.get('confirmed_demo') or {}).get('differs')))


def run(name, ids, tier='quick'):
    dst = os.path.join(SEEDED, name)
    meta = load_meta(dst)
    d = scratch(name + '-run')
    res = meta.get('checks', {})
    try:
        rc, out = sh('git -C %s apply %s' % (d, os.path.join(dst, 'patch.diff')))
        if rc != 0:
            print('patch does not apply:', out)
            return
        env = dict(os.environ, VERIF_REPO=d)
        for pid in ids:
            t0 = time.time()
            evp = os.path.join(HERE, 'evidence', '%s.json' % pid)
            saved = open(evp).read() if os.path.exists(evp) else None
            rc, out = sh('./check %s --tier %s' % (pid, tier), cwd=HERE, env=env, timeout=7200)
            if saved is not None:
                open(evp, 'w').write(saved)      # the evidence of a run against a seeded change is not kept
            lines = [l for l in out.splitlines() if l.startswith(('VIOLATION', 'OK ', 'KNOWN-FINDING'))]
            res[pid] = dict(exit=rc, tier=tier, wall_s=round(time.time() - t0, 1), lines=[l[:400] for l in lines][:6],
                            caught=(rc != 0 and any(l.startswith('VIOLATION') for l in lines)))
            rp = None
            for l in lines:
                if l.startswith('VIOLATION') and 'replay=' in l:
                    rp = l.split('replay=')[1].split()[0]
            if rp and os.path.exists(os.path.join(HERE, rp)):
                try:
                    r = json.load(open(os.path.join(HERE, rp)))
                    res[pid]['what'] = str(r.get('what') or r.get('broken') or '')[:400]
                    res[pid]['concrete'] = bool(r.get('case') or r.get('concrete'))
                except Exception:
                    pass
            print(name, pid, 'exit=%d' % rc, 'caught=%s' % res[pid]['caught'], (lines[-1][:200] if lines else out[-300:]))
    finally:
        drop(d)
    meta['checks'] = res
    json.dump(meta, open(os.path.join(dst, 'meta.json'), 'w'), indent=1)


if __name__ == '__main__':
    if sys.argv[1] == 'confirm':
        confirm(sys.argv[2], sys.argv[3])
    elif sys.argv[1] == 'run':
        tier = 'quick'
        args = sys.argv[3:]
        if '--thorough' in args:
            tier = 'thorough'
            args.remove('--thorough')
        run(sys.argv[2], args, tier)
