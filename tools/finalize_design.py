#!/usr/bin/env python3
"""Regenerates the two generated tables of DESIGN.md (inventory in section 8, seeded changes in section 9)."""
import json, os, re, sys
HERE = os.path.dirname(os.path.dirname(os.path.abspath(__file__)))
sys.path.insert(0, os.path.join(HERE, 'tools'))
import seed_table


def inventory():
    man = json.load(open(os.path.join(HERE, 'MANIFEST.json')))
    tech = {c['property_id']: c for c in man['checks']}
    rows = ['| property | level | theorems / examples | quick: evaluations | of which compared with the model | quick wall (s) |', '|---|---|---|---|---|---|']
    tot = 0
    for i in range(1, 21):
        pid = 'C%02d' % i
        e = json.load(open(os.path.join(HERE, 'evidence', pid + '.json')))
        c = e['coverage']
        txt = open(os.path.join(HERE, 'coq', 'Properties_%s.v' % pid)).read()
        nthm = len(re.findall(r'^Theorem', txt, flags=re.M))
        nex = len(re.findall(r'^Example', txt, flags=re.M))
        tot += nthm
        partial = 'proof, partial' if tech[pid]['level_claimed']['text'].startswith('PARTIAL') else 'proof'
        rows.append('| %s | %s | %d / %d | %s | %s | %s |' % (pid, partial, nthm, nex, c.get('evaluations'), c.get('traces_validated_against_impl', '-'), e.get('wall_s', '')))
    rows.append('| total | | %d theorems | | | |' % tot)
    return '\n'.join(rows)


def splice(s, tag, body):
    a, b = '<!-- %s -->' % tag, '<!-- /%s -->' % tag
    if a not in s:
        raise SystemExit('marker %s missing' % a)
    i, j = s.index(a) + len(a), s.index(b)
    return s[:i] + '\n' + body + '\n' + s[j:]


def main():
    p = os.path.join(HERE, 'DESIGN.md')
    s = open(p).read()
    s = splice(s, 'INVENTORY', inventory())
    s = splice(s, 'SEEDED', seed_table.main())
    open(p, 'w').write(s)


if __name__ == '__main__':
    main()
