#!/usr/bin/env python3
"""gen_srv_examples.py -- writes coq/ServerExamples.v: one concrete history (built with the
srvlib.HistGen primitives, so it is also a valid `H ...` line for harness/h_srvhist.c) as Coq data,
used by the non-vacuity Examples of Properties_C15.v / Properties_C16.v.  Deterministic; rerun after
changing the scenario:  python3 tools/gen_srv_examples.py  (also prints the history line)."""
import os, sys, random
HERE = os.path.dirname(os.path.abspath(__file__))
sys.path.insert(0, HERE)
sys.path.insert(0, os.path.join(os.path.dirname(HERE), 'checks'))
import srvlib


def build():
    rng = random.Random(15161516)
    g = srvlib.HistGen(rng, adversarial=0.0)
    g.domain = b't.example.com'
    g.password = b'secret'
    g.check_ip = 1
    g.myip = '10.0.0.1'
    g.netbits = 27
    g.mtu = 1500
    g.nsip = None
    g.bind = 0
    g.now = 1000100
    g.qtype = 10
    g.__init__.__func__  # keep linters quiet
    # recompute the pool for the fixed configuration
    g.tun_ips = [0x0a000002 + i for i in range(16)]
    g.nusers = 16
    g.events = []
    g.slot_last = {}
    s = srvlib.Session(g, (4, bytes([192, 0, 2, 10]), 4000))
    g.sessions = [s]
    names = {}

    def q(name, qid, addr=None):
        dg = srvlib.dns_query(qid, 10, name, edns0=True)
        g.emit_dgram(addr or s.addr, dg, seed=12345)

    def ping(tag, seq, frag, cmc, qid, addr=None, upper=False):
        data = bytes([s.uid, (seq << 4) | frag, cmc >> 8, cmc & 255])
        name = srvlib.qname(b'p', srvlib.enc(0, data), g.domain)
        if upper:
            name = name[:1] + name[1:8].upper() + name[8:]
        names[tag] = name
        q(name, qid, addr)

    def nreq(fs, qid, rs):
        data = bytes([s.uid, fs >> 8, fs & 255, rs >> 8, rs & 255])
        q(srvlib.qname(b'n', srvlib.enc(0, data), g.domain), qid)

    def data_q(tag, up_seq, up_frag, dn_seq, dn_frag, last, cmc, payload, qid, upper=False, addr=None):
        hdr = ('%x' % s.uid).encode()
        hdr += srvlib.b32c(((up_seq & 7) << 2) | ((up_frag & 15) >> 2))
        hdr += srvlib.b32c(((up_frag & 3) << 3) | (dn_seq & 7))
        hdr += srvlib.b32c(((dn_frag & 15) << 1) | (1 if last else 0))
        hdr += cmc
        if upper:
            hdr = hdr.upper()
        name = srvlib.qname(hdr, srvlib.enc(0, payload), g.domain)
        names[tag] = name
        q(name, qid, addr)

    g.version(s)                       # 0  V
    g.login(s)                         # 1  L
    nreq(1, 0x1001, 1)                 # 2  N=1   -> BADFRAG
    nreq(10, 0x1002, 2)                # 3  N=10  accepted
    pkt = bytearray(range(100, 130))
    pkt[20:24] = bytes([10, 0, 0, 2])
    g.events.append('T %d %s' % (g.now, bytes(pkt).hex()))   # 4  tun packet, 30 bytes -> 31 framed, 4 fragments
    ping('P1', 0, 0, 0x0101, 0x2001)   # 5  fresh: fragment 0 (10 bytes)
    ping('P1', 0, 0, 0x0101, 0x2002)   # 6  re-delivery, new id: cache, same payload
    ping('P2', 1, 0, 0x0102, 0x2003)   # 7  acks 1/0: fragment 1
    other = (4, bytes([192, 0, 2, 10]), 4777)
    ping('P1', 0, 0, 0x0101, 0x2004, addr=other)   # 8  re-delivery from another port: cache again
    ping('P3', 1, 1, 0x0103, 0x2005)   # 9  fragment 2
    ping('P4', 1, 2, 0x0104, 0x2006)   # 10 fragment 3 (1 byte, last)
    ping('P5', 1, 3, 0x0105, 0x2007)   # 11 dataless
    ping('P1', 0, 0, 0x0101, 0x2008)   # 12 P1 again: 4 saves later, out of the cache, suppressed "x"
    ping('P1', 0, 0, 0x0101, 0x2009, upper=True)  # 13 upper-cased Base32: same fingerprint, "x"
    nreq(5, 0x1003, 3)                 # 14 N=5 accepted: cache cleared
    ping('P5', 1, 3, 0x0105, 0x200a)   # 15 was cached, cache cleared by N: "x", not replayed
    data_q('D1', 1, 0, 1, 3, False, b'q', b'\x5a\x01\x02\x03', 0x3001)     # 16 upstream fragment, processed
    data_q('D1', 1, 0, 1, 3, False, b'q', b'\x5a\x01\x02\x03', 0x3002)     # 17 identical re-delivery: cache
    data_q('D1u', 1, 0, 1, 3, False, b'q', b'\x5a\x01\x02\x03', 0x3003, upper=True)  # 18 case-flipped header: "x"
    cm = srvlib.b32c(1) + srvlib.b32c(2) + srvlib.b32c(3)
    q(b'o' + srvlib.b32c(s.uid) + b'l' + cm + b'.' + g.domain, 0x4001)      # 19 lazy mode
    ping('P6', 1, 3, 0x0106, 0x2010)   # 20 held, no answer yet
    ping('P6', 1, 3, 0x0106, 0x2011)   # 21 re-delivery of the held query: remembered (id2), no output
    ping('P7', 1, 3, 0x0107, 0x2012)   # 22 P6 answered to both ids; P7 held
    return g, s


def build2():
    """an ack for fragment 0 of the next packet arrives before that fragment was ever sent"""
    rng = random.Random(15161517)
    g = srvlib.HistGen(rng, adversarial=0.0)
    g.domain = b't.example.com'
    g.password = b'secret'
    g.check_ip, g.myip, g.netbits, g.mtu, g.nsip, g.bind, g.now, g.qtype = 1, '10.0.0.1', 27, 1500, None, 0, 1000100, 10
    g.tun_ips = [0x0a000002 + i for i in range(16)]
    g.nusers = 16
    g.events = []
    g.slot_last = {}
    s = srvlib.Session(g, (4, bytes([192, 0, 2, 10]), 4000))

    def q(name, qid):
        g.emit_dgram(s.addr, srvlib.dns_query(qid, 10, name, edns0=True), seed=12345)

    def ping(seq, frag, cmc, qid):
        q(srvlib.qname(b'p', srvlib.enc(0, bytes([s.uid, (seq << 4) | frag, cmc >> 8, cmc & 255])), g.domain), qid)

    g.version(s)                                                   # 0
    g.login(s)                                                     # 1
    q(srvlib.qname(b'n', srvlib.enc(0, bytes([s.uid, 0, 10, 0, 1])), g.domain), 0x1001)   # 2  N=10
    pkt = bytearray(range(100, 130))
    pkt[20:24] = bytes([10, 0, 0, 2])
    g.events.append('T %d %s' % (g.now, bytes(pkt).hex()))         # 3  packet: sequence number 1, nothing sent yet
    ping(1, 0, 0x0201, 0x2001)      # 4  acknowledges 1/0 before it was ever sent: ignored, fragment 0 goes out
    ping(1, 0, 0x0202, 0x2002)      # 5  now a real ack of 1/0: fragment 1
    ping(1, 1, 0x0203, 0x2003)      # 6  fragment 2
    ping(1, 2, 0x0204, 0x2004)      # 7  fragment 3, last
    return g, s


def build3():
    """a ping whose data part is split over two labels: processed as a ping, never remembered in the ping memory"""
    rng = random.Random(15161518)
    g = srvlib.HistGen(rng, adversarial=0.0)
    g.domain = b't.example.com'
    g.password = b'secret'
    g.check_ip, g.myip, g.netbits, g.mtu, g.nsip, g.bind, g.now, g.qtype = 1, '10.0.0.1', 27, 1500, None, 0, 1000100, 10
    g.tun_ips = [0x0a000002 + i for i in range(16)]
    g.nusers = 16
    g.events = []
    g.slot_last = {}
    s = srvlib.Session(g, (4, bytes([192, 0, 2, 10]), 4000))

    def q(name, qid):
        g.emit_dgram(s.addr, srvlib.dns_query(qid, 10, name, edns0=True), seed=12345)

    def ping(seq, frag, cmc, qid):
        q(srvlib.qname(b'p', srvlib.enc(0, bytes([s.uid, (seq << 4) | frag, cmc >> 8, cmc & 255])), g.domain), qid)

    g.version(s)                                                   # 0
    g.login(s)                                                     # 1
    e = srvlib.enc(0, bytes([s.uid, 0x00, 0x09, 0x09, 0x07]))      # 8 Base32 chars
    dotted = b'p' + e[:2] + b'.' + e[2:] + b'.' + g.domain
    q(dotted, 0x2001)               # 2  processed (dataless answer)
    q(dotted, 0x2002)               # 3  in the answer cache: same payload
    ping(0, 0, 0x0301, 0x2003)      # 4..7  four more saves
    ping(0, 0, 0x0302, 0x2004)
    ping(0, 0, 0x0303, 0x2005)
    ping(0, 0, 0x0304, 0x2006)
    q(dotted, 0x2007)               # 8  out of the cache, never in the ping memory: processed again (answered, saved)
    ping(0, 0, 0x0301, 0x2008)      # 9  an ordinary ping of the same age is suppressed
    return g


def coq_events(g):
    evs = []
    for ev in g.events:
        t = ev.split()
        if t[0] == 'X':
            now, seed, frm, dest, dg = t[1:]
            fam, ip, port = frm.split(':')
            rnd = srvlib.rand_after_seed(int(seed))
            evs.append('DX %s %d {| a_fam := %d; a_ip := %s; a_port := %s |} %s %s' % (
                now, rnd, 10 if fam == '6' else 2, coq_list(bytes.fromhex(ip)), port,
                'None' if dest == '-' else '(Some %s)' % coq_list(bytes.fromhex(dest)),
                coq_list(bytes.fromhex(dg)) if dg != '-' else '[]'))
        elif t[0] == 'T':
            evs.append('DT %s %s' % (t[1], coq_list(bytes.fromhex(t[2]))))
        else:
            evs.append('DS %s' % t[1])
    return evs


def coq_list(bs):
    return '[' + ';'.join(str(b) for b in bs) + ']'


def main():
    g, s = build()
    line = 'H ' + g.cfg() + ' ; ' + ' ; '.join(g.events)
    out = []
    out.append('(* ServerExamples.v -- GENERATED by tools/gen_srv_examples.py; do not edit.  One concrete history')
    out.append('   (also replayable on the real iodined through harness/h_srvhist.c, see corpus/C16/example.cases). *)')
    out.append('From Coq Require Import List NArith ZArith Bool.')
    out.append('From Iodine Require Import Generated.SrcConsts Base Codec Hostname DnsName DnsMsg Domain Users Server.')
    out.append('Import ListNotations.')
    out.append('Local Open Scope N_scope.')
    out.append('')
    out.append('Inductive devent :=')
    out.append('| DX (now rnd : N) (from : addr) (dest : option (list N)) (packet : list N)')
    out.append('| DT (now : N) (packet : list N)')
    out.append('| DS (now : N).')
    out.append('')
    out.append('(* exactly what ocaml/drv_srv.ml does per event *)')
    out.append('Definition dstep (c : cfg) (st : sstate) (e : devent) : sstate * list out :=')
    out.append('  match e with')
    out.append('  | DX now rnd from dest packet => recv_datagram login_stub unz_frame c st now rnd from dest packet')
    out.append('  | DT now packet => tunnel_tun zc_frame st now packet')
    out.append('  | DS now => let st1 := sweep_clear st now in sweep_send (length st1) 0 st1 now []')
    out.append('  end.')
    out.append('')
    out.append('Definition drun (c : cfg) (st : sstate) (evs : list devent) : list (sstate * list out) :=')
    out.append('  List.rev (snd (fold_left (fun acc e => let x := dstep c (fst acc) e in (fst x, x :: snd acc)) evs (st, []))).')
    out.append('')
    pw = list((g.password + bytes(32))[:32])
    a, b, c_, d = [int(x) for x in g.myip.split('.')]
    out.append('Definition ex_cfg : cfg :=')
    out.append('  {| c_topdomain := %s; c_password := %s; c_check_ip := true;' % (coq_list(g.domain), coq_list(pw)))
    out.append('     c_my_ip := %d; c_netmask := %d; c_mtu := %d; c_ns_ip := None; c_bind := false |}.' % (
        a | (b << 8) | (c_ << 16) | (d << 24), g.netbits, g.mtu))
    out.append('Definition ex_ips : list N := fst (init_users %d %d).' % (a | (b << 8) | (c_ << 16) | (d << 24), g.netbits))
    out.append('')
    evs = []
    for ev in g.events:
        t = ev.split()
        if t[0] == 'X':
            now, seed, frm, dest, dg = t[1:]
            fam, ip, port = frm.split(':')
            rnd = srvlib.rand_after_seed(int(seed))
            evs.append('DX %s %d {| a_fam := %d; a_ip := %s; a_port := %s |} %s %s' % (
                now, rnd, 10 if fam == '6' else 2, coq_list(bytes.fromhex(ip)), port,
                'None' if dest == '-' else '(Some %s)' % coq_list(bytes.fromhex(dest)),
                coq_list(bytes.fromhex(dg)) if dg != '-' else '[]'))
        elif t[0] == 'T':
            evs.append('DT %s %s' % (t[1], coq_list(bytes.fromhex(t[2]))))
        else:
            evs.append('DS %s' % t[1])
    out.append('Definition ex_events : list devent := [')
    out.append(';\n'.join('  ' + e for e in evs))
    out.append('].')
    out.append('')
    out.append('Definition ex_trace : list (sstate * list out) := drun ex_cfg (init_state ex_ips) ex_events.')
    out.append('')
    out.append('(* payloads of the DNS answers of event k, and the state after it *)')
    out.append('Definition ex_payloads (k : nat) : list (list N) :=')
    out.append('  flat_map (fun o => match o with OAnswer _ _ _ d _ => [d] | _ => [] end) (snd (nth k ex_trace ([], []))).')
    out.append('Definition ex_state (k : nat) : sstate := fst (nth k ex_trace ([], [])).')
    out.append('Definition ex_user (k : nat) : suser := getu (ex_state k) 0.')
    out.append('Definition ex_ids (k : nat) : list N :=')
    out.append('  flat_map (fun o => match o with OAnswer _ id _ _ _ => [id] | _ => [] end) (snd (nth k ex_trace ([], []))).')
    out.append('(* upstream reassembly, downstream position, ack/resend state, queue, ring positions *)')
    out.append('Definition ex_digest (k : nat) :=')
    out.append('  let u := ex_user k in')
    out.append('  (p_len (u_in u), p_offset (u_in u), p_seqno (u_in u), p_fragment (u_in u), p_data (u_in u),')
    out.append('   (p_len (u_out u), p_offset (u_out u), p_sentlen (u_out u), p_seqno (u_out u), p_fragment (u_out u)),')
    out.append('   (u_resent u, u_queue_filled u, u_queue_next u), (u_cache_last u, u_pingmem_last u, u_datamem_last u)).')
    g2, s2 = build2()
    out.append('')
    out.append('(* second history: V, L, N=10, a 30-byte tun packet, then a ping that acknowledges fragment 0 of that packet')
    out.append('   before it was ever sent (corpus/C15/premature-ack-first-fragment-numbered-1.cases) *)')
    out.append('Definition ex2_events : list devent := [')
    out.append(';\n'.join('  ' + e for e in coq_events(g2)))
    out.append('].')
    out.append('Definition ex2_trace : list (sstate * list out) := drun ex_cfg (init_state ex_ips) ex2_events.')
    out.append('Definition ex2_payloads (k : nat) : list (list N) :=')
    out.append('  flat_map (fun o => match o with OAnswer _ _ _ d _ => [d] | _ => [] end) (snd (nth k ex2_trace ([], []))).')
    out.append('Definition ex2_user (k : nat) : suser := getu (fst (nth k ex2_trace ([], []))) 0.')
    open(os.path.join(os.path.dirname(HERE), 'coq', 'ServerExamples.v'), 'w').write('\n'.join(out) + '\n')
    with open(os.path.join(os.path.dirname(HERE), 'corpus', 'C15', 'premature-ack-first-fragment-numbered-1.cases'), 'w') as f:
        f.write('# an ack (seq 1, frag 0) arrives before fragment 0 of packet 1 was ever sent: it must be ignored and the\n'
                '# fragments go out as 0,1,2,3 (before iodine 1b8dff8 the first one went out as number 1);\n'
                '# generated by tools/gen_srv_examples.py\n')
        f.write('H ' + g2.cfg() + ' ; ' + ' ; '.join(g2.events) + '\n')
    cp = os.path.join(os.path.dirname(HERE), 'corpus', 'C16')
    os.makedirs(cp, exist_ok=True)
    with open(os.path.join(cp, 'example.cases'), 'w') as f:
        f.write('# the history of coq/ServerExamples.v (generated by tools/gen_srv_examples.py): fresh pings, re-deliveries\n'
                '# from the cache / suppressed / after N, a data query re-delivered identically and with flipped case\n')
        f.write(line + '\n')
    g3 = build3()
    with open(os.path.join(cp, 'dotted-ping-not-remembered.cases'), 'w') as f:
        f.write('# caveat of C16 (stated as hypothesis Hfp of C16_redelivered_ping; Example ping_dotted_not_remembered): a ping whose\n'
                '# data part is split over two labels ("pab.cdefgh.<domain>", never built by the iodine client) is processed as a ping\n'
                '# but its fingerprint is never saved: the repeat at event 8 (4 saves later) is processed again, while the ordinary\n'
                '# ping of the same age (event 9) gets the illegal answer.  Generated by tools/gen_srv_examples.py\n')
        f.write('H ' + g3.cfg() + ' ; ' + ' ; '.join(g3.events) + '\n')
    print(line[:300] + ' ...')


if __name__ == '__main__':
    main()
