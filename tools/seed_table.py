#!/usr/bin/env python3
"""Writes the table of seeded changes (DESIGN.md section 9) from seeded/*/meta.json."""
import json, os, glob, re
HERE = os.path.dirname(os.path.dirname(os.path.abspath(__file__)))


def main():
    rows = []
    for d in sorted(glob.glob(os.path.join(HERE, 'seeded', '*'))):
        name = os.path.basename(d)
        mp = os.path.join(d, 'meta.json')
        if not os.path.exists(mp):
            continue
        m = json.load(open(mp))
        prop = m.get('property', '?')
        files = ', '.join(os.path.basename(f) for f in (m.get('files') or [])) or ''
        summ = (m.get('summary') or '').replace('\n', ' ').replace('|', '/')
        summ = re.sub(r'\s+', ' ', summ)[:170]
        res = []
        for pid, r in sorted((m.get('checks') or {}).items()):
            if r.get('caught'):
                key = ''
                for l in r.get('lines', []):
                    mm = re.search(r'replays/(\S+?)-\d+\.json', l)
                    if mm:
                        key = mm.group(1).split('-', 1)[1] if '-' in mm.group(1) else mm.group(1)
                    if 'no-failing-input-found' in l:
                        key += ' (no-failing-input-found)'
                res.append('%s: **caught** `%s`' % (pid, key))
            elif name.startswith('harmless'):
                res.append('%s: passes (as required)' % pid)
            else:
                res.append('%s: not caught' % pid)
        conf = 'applies, builds, suite passes' if (m.get('confirmed_applies') and m.get('confirmed_builds') and m.get('confirmed_tests_pass')) else \
               (m.get('kind') or '?')
        rows.append((prop, name, files, summ, conf, '; '.join(res)))
    rows.sort()
    out = ['| property | seeded change | files | what it changes | confirmed | checks run against it |', '|---|---|---|---|---|---|']
    for r in rows:
        out.append('| %s | `%s` | %s | %s | %s | %s |' % r)
    return '\n'.join(out)


if __name__ == '__main__':
    print(main())
