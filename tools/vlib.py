"""vlib.py -- shared machinery for the /verif checks: snapshot of /repo's working tree,
translator, Coq proof build, extraction + OCaml model driver, C harness builds, case
running and diffing, replay / evidence / known-findings handling."""
import os, sys, json, subprocess, shutil, tempfile, time, hashlib, fcntl, re, random, atexit

VERIF = os.path.dirname(os.path.dirname(os.path.abspath(__file__)))
REPO = os.environ.get('VERIF_REPO', '/repo')
COQ = os.path.join(VERIF, 'coq')
BUILD = os.path.join(VERIF, 'build')
sys.path.insert(0, os.path.join(VERIF, 'tools'))
import gen_consts

REPO_CFLAGS = ['-std=c99', '-g', '-DLINUX', '-D_GNU_SOURCE', '-DHAVE_SETCON', '-DHAVE_SYSTEMD',
               '-DGITREVISION="verif"', '-w']
REPO_LIBS = ['-lz', '-lselinux', '-lsystemd']
SAN_FLAGS = ['-O1', '-fsanitize=address,undefined', '-fno-sanitize-recover=all', '-fno-omit-frame-pointer']
COMMON_SRCS = ['tun.c', 'dns.c', 'read.c', 'encoding.c', 'login.c', 'base32.c', 'base64.c', 'base64u.c',
               'base128.c', 'md5.c', 'common.c']
HOOK_GUARD = 'IODINE_VERIF'

ALLOWED_AXIOMS = {
    # std-lib axioms the brief allows, if they ever show up; currently none is needed
    'functional_extensionality_dep', 'Eqdep.Eq_rect_eq.eq_rect_eq', 'eq_rect_eq', 'proof_irrelevance',
    'classic', 'JMeq_eq',
}


def log(*a):
    print(*a, flush=True)


def run(cmd, timeout=None, cwd=None, env=None, input=None, check=False):
    p = subprocess.run(cmd, cwd=cwd, env=env, input=input, stdout=subprocess.PIPE, stderr=subprocess.STDOUT,
                       timeout=timeout, text=True, errors='replace')
    if check and p.returncode != 0:
        raise RuntimeError('command failed (%d): %s\n%s' % (p.returncode, ' '.join(cmd), p.stdout[-4000:]))
    return p.returncode, p.stdout


class Lock:
    def __init__(self, name):
        os.makedirs(BUILD, exist_ok=True)
        self.path = os.path.join(BUILD, '.%s.lock' % name)

    def __enter__(self):
        self.f = open(self.path, 'w')
        fcntl.flock(self.f, fcntl.LOCK_EX)
        return self

    def __exit__(self, *a):
        fcntl.flock(self.f, fcntl.LOCK_UN)
        self.f.close()


# ------------------------------------------------------------------------------------------
# snapshot of the repository working tree

class Snapshot:
    """A copy of /repo's *working tree* (uncommitted edits included) in a scratch directory
    outside /repo and /verif, removed at exit."""

    def __init__(self):
        self.dir = tempfile.mkdtemp(prefix='iodine-verif.')
        atexit.register(self.cleanup)
        rc, out = run(['rsync', '-a', '--exclude', '.git', '--exclude', '*.o', '--exclude', 'bin/',
                       '--exclude', 'src/base64u.c', '--exclude', 'tests/test',
                       REPO + '/', self.dir + '/'])
        if rc != 0:
            raise RuntimeError('snapshot failed: ' + out)
        self.src = os.path.join(self.dir, 'src')
        # base64u.c by the repository's own Makefile rule
        rc, out = run(['make', '-s', '-C', self.src, 'base64u.c'])
        self.base64u_err = None if rc == 0 else out
        self.objs = {}

    def cleanup(self):
        shutil.rmtree(self.dir, ignore_errors=True)

    def tree_hash(self):
        h = hashlib.sha256()
        for fn in sorted(os.listdir(self.src)):
            if fn.endswith(('.c', '.h')) or fn == 'Makefile':
                with open(os.path.join(self.src, fn), 'rb') as f:
                    h.update(fn.encode() + b'\0' + f.read())
        return h.hexdigest()[:16]

    def compile_objs(self, srcs, outdir, extra=(), sanitize=False, cc='gcc'):
        """Compile repo sources (relative to src/) into outdir; returns (ok, objs, log)."""
        os.makedirs(outdir, exist_ok=True)
        procs = []
        objs = []
        for s in srcs:
            o = os.path.join(outdir, os.path.basename(s)[:-2] + '.o')
            objs.append(o)
            cmd = [cc] + REPO_CFLAGS + ['-D' + HOOK_GUARD] + (SAN_FLAGS if sanitize else []) + list(extra) + \
                  ['-I', self.src, '-c', os.path.join(self.src, s), '-o', o]
            procs.append((s, subprocess.Popen(cmd, stdout=subprocess.PIPE, stderr=subprocess.STDOUT, text=True)))
        ok = True
        logtxt = ''
        for s, p in procs:
            out, _ = p.communicate()
            if p.returncode != 0:
                ok = False
                logtxt += '--- %s\n%s\n' % (s, out)
        return ok, objs, logtxt


def build_harness(snap, name, harness_srcs, repo_srcs, outdir, wraps=(), sanitize=False, extra_cflags=(), cc='gcc'):
    """Build harness/<src> + repo objects into outdir/name.  Returns (ok, path, log)."""
    os.makedirs(outdir, exist_ok=True)
    odir = os.path.join(outdir, name + ('.san' if sanitize else '') + '.objs')
    ok, objs, lg = snap.compile_objs(repo_srcs, odir, sanitize=sanitize, cc=cc)
    if not ok:
        return False, None, lg
    hobjs = []
    for hs in harness_srcs:
        o = os.path.join(odir, 'h_' + os.path.basename(hs)[:-2] + '.o')
        cmd = [cc] + REPO_CFLAGS + ['-D' + HOOK_GUARD] + (SAN_FLAGS if sanitize else []) + list(extra_cflags) + \
              ['-I', snap.src, '-I', os.path.join(VERIF, 'harness'), '-DSNAP_SRC="%s"' % snap.src,
               '-c', os.path.join(VERIF, 'harness', hs), '-o', o]
        rc, out = run(cmd)
        if rc != 0:
            return False, None, out
        hobjs.append(o)
    exe = os.path.join(outdir, name + ('.san' if sanitize else ''))
    cmd = [cc] + (SAN_FLAGS if sanitize else []) + hobjs + objs + ['-o', exe] + REPO_LIBS
    if wraps:
        cmd.append('-Wl,' + ','.join('--wrap=' + w for w in wraps))
    rc, out = run(cmd)
    if rc != 0:
        return False, None, out
    return True, exe, ''


# ------------------------------------------------------------------------------------------
# Coq side

def translate(snap):
    """Regenerate coq/Generated/SrcConsts.v from the snapshot.  Returns (ok, message, consts)."""
    try:
        text, consts = gen_consts.generate(snap.src)
    except gen_consts.TranslatorError as e:
        return False, str(e), None
    with Lock('coq'):
        changed = gen_consts.write_if_changed(os.path.join(COQ, 'Generated', 'SrcConsts.v'), text)
    return True, 'SrcConsts.v %s' % ('rewritten' if changed else 'unchanged'), consts


def coq_makefile():
    """_CoqProject lists every .v file present under coq/ (regenerated when the set changes)."""
    vs = []
    for root, _, files in os.walk(COQ):
        for fn in files:
            if fn.endswith('.v'):
                vs.append(os.path.relpath(os.path.join(root, fn), COQ))
    text = '-Q . Iodine\n' + '\n'.join(sorted(vs)) + '\n'
    pp = os.path.join(COQ, '_CoqProject')
    old = open(pp).read() if os.path.exists(pp) else ''
    if old != text or not os.path.exists(os.path.join(COQ, 'Makefile')):
        open(pp, 'w').write(text)
        run(['coq_makefile', '-f', '_CoqProject', '-o', 'Makefile'], cwd=COQ, check=True)


def coq_make(targets, timeout=1800, jobs=16):
    """make -k the given .vo targets (full .vo build).  Returns (rc, output)."""
    with Lock('coq'):
        coq_makefile()
        os.makedirs(os.path.join(COQ, 'extracted'), exist_ok=True)
        env = dict(os.environ)
        try:
            rc, out = run(['bash', '-c', 'ulimit -s unlimited 2>/dev/null; exec make -k -j%d %s' % (jobs, ' '.join(targets))],
                          cwd=COQ, timeout=timeout, env=env)
        except subprocess.TimeoutExpired as e:
            return 124, 'TIMEOUT after %ds\n%s' % (timeout, (e.stdout or '')[-3000:] if isinstance(e.stdout, str) else '')
    return rc, out


FORBIDDEN = re.compile(r'\b(Admitted|admit|Axiom|Parameter|Conjecture|Admit Obligations|Unset Guard Checking|'
                       r'bypass_check|Unset Positivity Checking|Unset Universe Checking|type-in-type|impredicative-set)\b')


def coq_hygiene():
    """grep gate: no Admitted/Axiom/... anywhere in the development (comments stripped)."""
    bad = []
    for root, _, files in os.walk(COQ):
        for fn in files:
            if not fn.endswith('.v') and fn != '_CoqProject':
                continue
            p = os.path.join(root, fn)
            txt = open(p, encoding='utf-8', errors='replace').read()
            # strip (* ... *) comments (non-nested good enough; nested handled iteratively)
            prev = None
            while prev != txt:
                prev = txt
                txt = re.sub(r'\(\*(?:(?!\(\*|\*\)).)*\*\)', ' ', txt, flags=re.S)
            for m in FORBIDDEN.finditer(txt):
                # "Variable"/"Hypothesis" inside sections are allowed; Parameter etc. never
                bad.append('%s: %s' % (os.path.relpath(p, COQ), m.group(0)))
    return bad


def prove(prop_id, timeout=1800):
    """Build Properties_<id>.vo (and its dependency cone) and parse Print Assumptions.
    Returns dict(ok, obligations, discharged, theorems, assumptions, axioms, failed, log)."""
    pf = os.path.join(COQ, 'Properties_%s.v' % prop_id)
    txt = open(pf).read()
    theorems = re.findall(r'^\s*Theorem\s+(\w+)', txt, flags=re.M)
    res = dict(ok=False, obligations=len(theorems), discharged=0, theorems=theorems, assumptions={}, axioms=[],
               failed=None, log='')
    bad = coq_hygiene()
    if bad:
        res['failed'] = 'hygiene: ' + '; '.join(bad[:5])
        res['log'] = res['failed']
        return res
    # force re-check of the property file itself so that Print Assumptions output is fresh
    vo = os.path.join(COQ, 'Properties_%s.vo' % prop_id)
    with Lock('coq'):
        if os.path.exists(vo):
            os.remove(vo)
    t0 = time.time()
    rc, out = coq_make(['Properties_%s.vo' % prop_id], timeout=timeout)
    res['log'] = out[-6000:]
    res['coq_wall_s'] = round(time.time() - t0, 1)
    if rc != 0:
        m = re.search(r'File "\./([^"]+)", line (\d+)', out)
        res['failed'] = ('%s line %s' % (m.group(1), m.group(2))) if m else ('make rc=%d' % rc)
        em = re.search(r'Error:(.*?)(?:\n\n|\Z)', out, flags=re.S)
        if em:
            res['failed'] += ': ' + ' '.join(em.group(1).split())[:300]
        # theorems of the property file proved before the failure point (if failure is inside it)
        if m and m.group(1) == 'Properties_%s.v' % prop_id:
            upto = '\n'.join(txt.split('\n')[:int(m.group(2)) - 1])
            res['discharged'] = max(0, len(re.findall(r'^\s*Theorem\s+(\w+)', upto, flags=re.M)) - 1)
        return res
    # parse Print Assumptions output: sequences "Closed under the global context" or "Axioms:\n name : type"
    chunks = re.split(r'(?=Closed under the global context|Axioms:)', out)
    closed = 0
    axioms = set()
    for ch in chunks:
        if ch.startswith('Closed under the global context'):
            closed += 1
        elif ch.startswith('Axioms:'):
            for line in ch.split('\n')[1:]:
                mm = re.match(r'^([A-Za-z_][\w.\']*)\s*:', line)
                if mm:
                    axioms.add(mm.group(1))
                elif line.strip() == '' or line.startswith('COQC') or line.startswith('make'):
                    break
    res['axioms'] = sorted(axioms)
    res['closed_count'] = closed
    illegal = [a for a in axioms if a.split('.')[-1] not in ALLOWED_AXIOMS and a not in ALLOWED_AXIOMS]
    if illegal:
        res['failed'] = 'non-stdlib axioms: ' + ', '.join(illegal)
        return res
    res['discharged'] = len(theorems)
    res['ok'] = True
    return res


def build_model_driver(prop):
    """Extract the model (Extract_<prop>.vo -> extracted/model_<prop>.ml) and build the OCaml
    driver drvlib.ml + drv_<prop>.ml + drvmain.ml.  Returns (ok, path, log)."""
    lp = prop.lower()
    rc, out = coq_make(['Extract_%s.vo' % prop])
    if rc != 0:
        return False, None, out[-4000:]
    with Lock('ocaml-' + lp):
        os.makedirs(BUILD, exist_ok=True)
        src = os.path.join(COQ, 'extracted')
        stamp = os.path.join(BUILD, 'model_%s.stamp' % lp)
        h = hashlib.sha256()
        for fn in ('model_%s.ml' % lp, 'model_%s.mli' % lp):
            h.update(open(os.path.join(src, fn), 'rb').read())
        drv = ''
        for fn in ('drvlib.ml', 'drv_%s.ml' % lp, 'drvmain.ml'):
            drv += open(os.path.join(VERIF, 'ocaml', fn)).read() + '\n'
        h.update(drv.encode())
        exe = os.path.join(BUILD, 'model_%s' % lp)
        if os.path.exists(exe) and os.path.exists(stamp) and open(stamp).read() == h.hexdigest():
            return True, exe, ''
        od = os.path.join(BUILD, 'ocaml_' + lp)
        shutil.rmtree(od, ignore_errors=True)
        os.makedirs(od, exist_ok=True)
        shutil.copy(os.path.join(src, 'model_%s.ml' % lp), os.path.join(od, 'model.ml'))
        shutil.copy(os.path.join(src, 'model_%s.mli' % lp), os.path.join(od, 'model.mli'))
        open(os.path.join(od, 'driver.ml'), 'w').write(drv)
        rc, out = run(['ocamlfind', 'ocamlopt', '-O3', '-w', '-a', 'model.mli', 'model.ml', 'driver.ml', '-o', exe], cwd=od)
        if rc != 0:
            return False, None, out[-4000:]
        open(stamp, 'w').write(h.hexdigest())
    return True, exe, ''


# ------------------------------------------------------------------------------------------
# running cases

def run_cases(exe, cases_path, timeout=600, env=None):
    """Returns (rc, lines, raw).  rc != 0 on crash / sanitizer abort / timeout."""
    e = dict(os.environ)
    e['ASAN_OPTIONS'] = 'detect_leaks=0:abort_on_error=0:halt_on_error=1'
    e['UBSAN_OPTIONS'] = 'print_stacktrace=1:halt_on_error=1'
    if env:
        e.update(env)
    try:
        p = subprocess.run(['bash', '-c', 'ulimit -s unlimited 2>/dev/null; exec "$0" "$1"', exe, cases_path],
                           stdout=subprocess.PIPE, stderr=subprocess.PIPE, timeout=timeout, env=e)
    except subprocess.TimeoutExpired as ex:
        out = (ex.stdout or b'').decode('latin-1')
        return 124, out.split('\n'), 'TIMEOUT'
    out = p.stdout.decode('latin-1')
    lines = out.split('\n')
    if lines and lines[-1] == '':
        lines.pop()
    return p.returncode, lines, p.stderr.decode('latin-1')[-6000:]


def parallel_run_cases(exe, cases, workdir, tag, shards=16, timeout=900):
    """Split the list of case lines into shards and run concurrently; returns (rc, lines, err)."""
    os.makedirs(workdir, exist_ok=True)
    n = len(cases)
    if n == 0:
        return 0, [], ''
    # long case lines (whole histories) deserve their own shard even when there are few of them
    avg = sum(len(c) for c in cases[:50]) / min(n, 50)
    per = 200 if avg < 2000 else 4
    shards = max(1, min(shards, n // per + 1))
    size = (n + shards - 1) // shards
    procs = []
    e = dict(os.environ)
    e['ASAN_OPTIONS'] = 'detect_leaks=0:abort_on_error=0:halt_on_error=1'
    e['UBSAN_OPTIONS'] = 'print_stacktrace=1:halt_on_error=1'
    for i in range(shards):
        part = cases[i * size:(i + 1) * size]
        if not part:
            continue
        cp = os.path.join(workdir, '%s.%d.cases' % (tag, i))
        with open(cp, 'w') as f:
            f.write('\n'.join(part) + '\n')
        # outputs go to files, not pipes: a full pipe would serialise the shards
        fo = open(cp + '.out', 'wb')
        fe = open(cp + '.err', 'wb')
        p = subprocess.Popen(['bash', '-c', 'ulimit -s unlimited 2>/dev/null; exec "$0" "$1"', exe, cp],
                             stdout=fo, stderr=fe, env=e)
        procs.append((p, len(part), cp, fo, fe))
    lines = []
    rc = 0
    err = ''
    deadline = time.time() + timeout
    for p, cnt, cp, fo, fe in procs:
        try:
            p.wait(timeout=max(1, deadline - time.time()))
        except subprocess.TimeoutExpired:
            p.kill()
            p.wait()
            rc = 124
            err += 'TIMEOUT in shard %s\n' % cp
        fo.close()
        fe.close()
        ls = open(cp + '.out', 'rb').read().decode('latin-1').split('\n')
        if ls and ls[-1] == '':
            ls.pop()
        if p.returncode not in (0, None) and rc == 0:
            rc = p.returncode
        if p.returncode != 0:
            err += open(cp + '.err', 'rb').read().decode('latin-1')[-3000:]
        # pad so that indices stay aligned even after a crash
        if len(ls) < cnt:
            ls += ['<NO-OUTPUT>'] * (cnt - len(ls))
        lines += ls[:cnt]
    return rc, lines, err


def first_diff(cases, a, b):
    """Index of first differing result line, or None."""
    for i in range(min(len(a), len(b), len(cases))):
        if a[i] != b[i]:
            return i
    if len(a) != len(b):
        return min(len(a), len(b))
    return None


# ------------------------------------------------------------------------------------------
# evidence, replays, known findings

def known_findings():
    p = os.path.join(VERIF, 'known_findings.json')
    try:
        return json.load(open(p))
    except OSError:
        return {'findings': []}


class Report:
    """Collects what a check run found and writes evidence + prints verdict lines."""

    def __init__(self, prop_id, tier, seed):
        self.id = prop_id
        self.tier = tier
        self.seed = seed
        self.t0 = time.time()
        self.violations = []      # (key, replay_path, concrete: bool, what)
        self.known_hits = []
        self.cov = dict(evaluations=0, distinct_nontrivial=0, rule='', samples=[], obligations=0, discharged=0,
                        checker_cmd='', trusted_base=[])
        self.assumptions = []
        self.notes = []

    def add_violation(self, key, what, replay, concrete=True):
        """key identifies the failing call site / input class (matched against known_findings)."""
        kf = known_findings()
        for f in kf.get('findings', []):
            if f.get('property') == self.id and f.get('status') == 'known' and f.get('key') == key:
                if key not in [k for k, _ in self.known_hits]:
                    self.known_hits.append((key, f.get('what', what)))
                return
        os.makedirs(os.path.join(VERIF, 'replays'), exist_ok=True)
        path = os.path.join(VERIF, 'replays', '%s-%s-%d.json' % (self.id, re.sub(r'[^\w.-]', '_', key)[:60], self.seed))
        replay = dict(replay)
        replay.setdefault('property', self.id)
        replay.setdefault('seed', self.seed)
        replay.setdefault('key', key)
        replay.setdefault('what', what)
        with open(path, 'w') as f:
            json.dump(replay, f, indent=1)
        self.violations.append((key, path, concrete, what))

    def finish(self):
        self.cov['samples'] = self.cov['samples'][:12]
        ev = dict(property_id=self.id, tier=self.tier, seed=self.seed, level='proof', coverage=self.cov,
                  assumptions=self.assumptions, wall_s=round(time.time() - self.t0, 2),
                  violations=len(self.violations))
        if self.notes:
            ev['coverage']['notes'] = self.notes
        os.makedirs(os.path.join(VERIF, 'evidence'), exist_ok=True)
        p = os.path.join(VERIF, 'evidence', '%s.json' % self.id)
        tmp = p + '.tmp%d' % os.getpid()
        with open(tmp, 'w') as f:
            json.dump(ev, f, indent=1)
        os.replace(tmp, p)
        for key, what in self.known_hits:
            log('KNOWN-FINDING: property=%s %s' % (self.id, what))
        seen = set()
        for key, path, concrete, what in self.violations:
            if key in seen:
                continue
            seen.add(key)
            log('# %s: %s' % (key, what))
            log('VIOLATION property=%s replay=%s%s' % (self.id, path, '' if concrete else ' no-failing-input-found'))
        if self.violations:
            return 1
        log('OK property=%s tier=%s obligations=%d discharged=%d evaluations=%d wall=%.1fs' % (
            self.id, self.tier, self.cov.get('obligations', 0), self.cov.get('discharged', 0),
            self.cov.get('evaluations', 0), time.time() - self.t0))
        return 0


STD_TRUSTED = [
    'Coq 8.16.1 kernel + vm_compute (no native_compute); full .vo build, no -vos',
    'tools/gen_consts.py translator (constants/alphabets regenerated from /repo/src each run)',
    'extraction: ExtrOcamlBasic only (bool, option, unit, list, prod, sumbool, sumor mapped), no Extract Constant; OCaml 4.13.1; ocaml/driver.ml glue',
    'correspondence harness harness/*.c compiled with gcc 12 against the snapshot of /repo (x86-64, little-endian, signed char)',
]


def rng_for(seed, tag):
    return random.Random('%s/%s' % (seed, tag))


def hexs(bs):
    return bytes(bs).hex() if len(bs) else '-'


# ------------------------------------------------------------------------------------------
# standard pipeline shared by the property checks

class Ctx:
    pass


PURE_SRCS = COMMON_SRCS + ['user.c', 'fw_query.c']


def prepare(rep, harnesses=('pure',), sanitize=None, prove_it=True, proof_timeout=1800, model=None):
    """snapshot -> translate -> prove -> extract+driver -> build harnesses.
    Failures of the tie (translator anchor, harness build, extraction) and of the proof are
    recorded on ctx; the caller runs its implementation-level search and then calls
    ctx.report_broken() so that a broken obligation is reported even when no failing input
    is found."""
    ctx = Ctx()
    ctx.rep = rep
    ctx.broken = []           # (key, text) proof / correspondence obligations that no longer check
    ctx.snap = Snapshot()
    ctx.work = os.path.join(BUILD, rep.id)
    shutil.rmtree(ctx.work, ignore_errors=True)
    os.makedirs(ctx.work, exist_ok=True)
    if ctx.snap.base64u_err:
        ctx.broken.append(('build:base64u', 'repository rule for base64u.c failed: ' + ctx.snap.base64u_err[-300:]))
    ok, msg, consts = translate(ctx.snap)
    ctx.consts = consts
    if not ok:
        ctx.broken.append(('translator', msg))
    elif consts and consts.get('SOFT_MISSED'):
        # inline-literal anchors that no longer match: recorded values are used and the correspondence decides (gen_consts.py)
        rep.cov['translator_soft_anchors_missed'] = consts['SOFT_MISSED']
    ctx.proof = None
    if prove_it:
        if ok:
            ctx.proof = prove(rep.id, timeout=proof_timeout)
            rep.cov['obligations'] = ctx.proof['obligations']
            rep.cov['discharged'] = ctx.proof['discharged']
            rep.cov['theorems'] = ctx.proof['theorems']
            rep.cov['print_assumptions'] = ('Closed under the global context (all %d theorems)' % ctx.proof.get('closed_count', 0)) \
                if not ctx.proof['axioms'] else 'Axioms: ' + ', '.join(ctx.proof['axioms'])
            rep.cov['coq_wall_s'] = ctx.proof.get('coq_wall_s')
            if not ctx.proof['ok']:
                ctx.broken.append(('proof', 'theorems of Properties_%s.v no longer check: %s' % (rep.id, ctx.proof['failed'])))
        else:
            txt = open(os.path.join(COQ, 'Properties_%s.v' % rep.id)).read()
            rep.cov['obligations'] = len(re.findall(r'^\s*Theorem\s+(\w+)', txt, flags=re.M))
            rep.cov['discharged'] = 0
    rep.cov['checker_cmd'] = 'make -C coq -k -j16 Properties_%s.vo  (coqc 8.16.1, full .vo, Print Assumptions under every theorem)' % rep.id
    rep.cov['trusted_base'] = list(STD_TRUSTED)
    ctx.model = None
    if ok:
        mok, exe, lg = build_model_driver(model or rep.id)
        if mok:
            ctx.model = exe
        else:
            ctx.broken.append(('extraction', 'model extraction / driver build failed: ' + lg[-400:]))
    if sanitize is None:
        sanitize = True
    ctx.exe = {}
    ctx.san = {}
    if not isinstance(harnesses, dict):
        harnesses = {h: (HARNESSES.get(h) or pure_harness(rep.id)) for h in harnesses}
    for h, spec in harnesses.items():
        hok, exe, lg = build_harness(ctx.snap, h, spec['harness'], spec['repo'], ctx.work, wraps=spec.get('wraps', ()))
        if hok:
            ctx.exe[h] = exe
        else:
            ctx.broken.append(('build:' + h, 'harness %s does not build against the current tree: %s' % (h, lg[-600:])))
        if sanitize:
            hok, exe, lg = build_harness(ctx.snap, h, spec['harness'], spec['repo'], ctx.work, wraps=spec.get('wraps', ()),
                                         sanitize=True)
            if hok:
                ctx.san[h] = exe
    rep.cov['tree_hash'] = ctx.snap.tree_hash()

    def report_broken():
        for key, text in ctx.broken:
            rep.add_violation(key, text, dict(kind='proof' if key == 'proof' else 'correspondence', broken=text),
                              concrete=False)
    ctx.report_broken = report_broken
    return ctx


def pure_harness(prop):
    return dict(harness=['hmain.c', 'h_%s.c' % prop.lower()], repo=PURE_SRCS, wraps=['time'])


HARNESSES = {
    'pure': None,   # resolved per property: hmain.c + h_<id>.c + the stateless repo objects
}

# A check may also pass prepare(rep, harnesses={'name': spec}) with its own spec, e.g. a
# translation unit that #includes iodined.c or client.c to reach their static functions:
SERVER_TU_SRCS = COMMON_SRCS + ['user.c', 'fw_query.c']           # + harness file including iodined.c
CLIENT_TU_SRCS = COMMON_SRCS + ['util.c']                          # + harness file including client.c


def tu_harness(files, kind, wraps):
    """files: harness C files (one of them does `#define main x_main` + `#include SNAP_SRC "/iodined.c"`
    or client.c); kind: 'server' | 'client'; wraps: symbols intercepted with -Wl,--wrap=."""
    return dict(harness=list(files), repo=SERVER_TU_SRCS if kind == 'server' else CLIENT_TU_SRCS, wraps=list(wraps))
