"""writes corpus/C14/*.cases (hand-built scenarios from srvlib.HistGen primitives) and prints the Coq
definitions of the example history of Properties_C14.v (same bytes)"""
import sys, os, json, random
HERE = os.path.dirname(os.path.abspath(__file__))
ROOT = os.path.join(HERE, '..')   # tools/ -> repository root
sys.path.insert(0, os.path.join(ROOT, 'tools'))
sys.path.insert(0, os.path.join(ROOT, 'checks'))
import srvlib, c14
from srvlib import enc, qname, login_stub, b32c, rand_after_seed, dns_query, Session


def L(bs):
    return '[' + ';'.join(str(b) for b in bs) + ']'


def find_gen(tag, **want):
    for k in range(100000):
        g = c14.C14Gen(random.Random('%s-%d' % (tag, k)))
        if all(getattr(g, a) == v for a, v in want.items()):
            return g
    raise SystemExit('no generator')


os.makedirs(os.path.join(ROOT, 'corpus', 'C14'), exist_ok=True)

# ---- A: the example of Properties_C14.v, byte for byte ---------------------------------------
g = find_gen('c14-corpus-A', domain=b'a.bc', password=b'', check_ip=1, myip='10.0.0.1', netbits=27, nsip=None, bind=0)
g.now = 1000000
g.rng = random.Random('fixed')
dom = g.domain
A0 = (4, bytes([192, 0, 2, 10]), 4000)
A1 = (4, bytes([192, 0, 2, 10]), 4001)
vseed = 777
sess_seed = rand_after_seed(vseed)
names = {}
names['nV'] = qname(b'v', enc(0, bytes([0, 0, 5, 2, 0x12, 0x34])), dom)
names['nL'] = qname(b'l', enc(0, bytes([0]) + login_stub(b'', sess_seed) + bytes([0x12, 0x35])), dom)
names['nO'] = b'o' + b32c(0) + b'l' + b'aab' + b'.' + dom
for k in range(1, 5):
    names['nP%d' % k] = qname(b'p', enc(0, bytes([0, 0, 0x20, k])), dom)


def q(addr, name, qid, seed=0):
    g.emit_dgram(addr, dns_query(qid, 10, name, edns0=True), seed=seed)


q(A0, names['nV'], 100, seed=vseed)
q(A0, names['nL'], 101)
q(A0, names['nO'], 102)
q(A0, names['nP1'], 201)
q(A0, names['nP2'], 202)
q(A1, names['nP2'], 203)
q(A0, names['nP3'], 204)
q(A0, names['nP4'], 0)
tun = bytearray(range(40))
tun[20:24] = bytes([10, 0, 0, 2])
g.events.append('T %d %s' % (g.now, bytes(tun).hex()))
g.sweep()
caseA = 'H ' + g.cfg() + ' ; ' + ' ; '.join(g.events)
open(os.path.join(ROOT, 'corpus', 'C14', 'lazy-example.cases'), 'w').write(
    '# the non-vacuity example of coq/Properties_C14.v (C14_example_*): version, login, lazy mode, ping 201 held,\n'
    '# ping 202 answers 201, duplicate 203 of 202 from another port remembered, ping 204 answers 202 and 203,\n'
    '# id-0 ping ignored, tun packet answers 204, sweep sends nothing\n' + caseA + '\n')
print('(* rnd of the version event = rand_after_seed(%d) = %d *)' % (vseed, sess_seed))
for k, v in names.items():
    print('Definition %s : list N := %s.  (* %s *)' % (k, L(v), v.decode()))
print('Definition tunpkt : list N := %s.' % L(tun))

# ---- B: lazy mode, upstream packet whose last fragment parks the older query in q_sendrealsoon ----
g = find_gen('c14-corpus-B', check_ip=1, bind=0)
g.adv = 0
g.qtype = 16
s = Session(g, (4, bytes([192, 0, 2, 20]), 4100))
g.sessions.append(s)
g.version(s); g.tick(); g.login(s); g.tick(); g.set_lazy(s, True); g.tick()
g.ping(s); g.tick()
s.up_seq = 1
g.data(s, bytes([0x5A]) + bytes(range(40)), last=True)      # ping parked in q_sendrealsoon, data query held
g.dup_held(s); g.dup_held(s)
g.sweep()                                                   # q_sendrealsoon_new cleared, then sent
g.data(s, bytes([0x5A]) + bytes(30), last=False); g.tick()
g.data(s, bytes(range(30)), last=True); g.tick()
g.ping(s); g.ping(s); g.dup_held(s); g.tun_for(s); g.tun_for(s); g.sweep(); g.ping(s); g.sweep()
g.id0_query(s); g.set_lazy(s, False); g.ping(s); g.data(s); g.sweep()
caseB = 'H ' + g.cfg() + ' ; ' + ' ; '.join(g.events)
open(os.path.join(ROOT, 'corpus', 'C14', 'lazy-data-sendrealsoon.cases'), 'w').write(
    '# lazy mode: last upstream fragment moves the held ping to q_sendrealsoon, duplicates, sweep, tun arrivals, then immediate mode\n'
    + caseB + '\n')

# ---- C: two sessions, client-to-client packet answers the other session's held query; raw switch ----
g = find_gen('c14-corpus-C', check_ip=1, bind=0)
g.adv = 0
g.qtype = 10
s1 = Session(g, (4, bytes([192, 0, 2, 30]), 4200))
s2 = Session(g, (4, bytes([192, 0, 2, 31]), 4201))
g.sessions += [s1, s2]
for s in (s1, s2):
    g.version(s); g.tick(); g.login(s); g.tick(); g.set_lazy(s, True); g.tick()
g.ping(s2); g.tick()                                         # s2 holds a ping
ipk = bytearray(range(60)); d = g.tun_ips[s2.uid]
ipk[20:24] = bytes([(d >> 24) & 255, (d >> 16) & 255, (d >> 8) & 255, d & 255])
s1.up_seq = 1
g.data(s1, bytes([0x5A]) + bytes(ipk), last=True); g.tick()   # forwarded to s2: answers s2's held ping
g.ping(s1); g.ping(s2); g.dup_held(s2)
g.raw(s1, kind='login'); g.tick()
g.ping(s1); g.data(s1); g.ping(s1)                           # DNS-mode queries for a raw-mode session
g.raw(s1, kind='ping'); g.ping(s1); g.tun_for(s1); g.sweep()
g.version(s1); g.tick(); g.login(s1); g.ping(s1); g.ping(s1); g.sweep()
caseC = 'H ' + g.cfg() + ' ; ' + ' ; '.join(g.events)
open(os.path.join(ROOT, 'corpus', 'C14', 'forward-and-raw.cases'), 'w').write(
    '# client-to-client packet answers the held query of the other session; raw-mode switch followed by DNS-mode queries\n'
    + caseC + '\n')

# ---- D: histories on which seeded mutants of send_chunk_or_dataless / the handlers were first caught ----
rd = os.path.join(ROOT, 'replays')
out = []
for fn, what in (('C14-answer_unsolicited-1.json', 'ping handler answering a free slot (id 0)'),
                 ('C14-answer_surplus-1.json', 'remembered duplicate answered twice'),
                 ('C14-held-query-lost-1.json', 'q_sendrealsoon overwritten while held')):
    pth = os.path.join(rd, fn)
    if os.path.exists(pth):
        rp = json.load(open(pth))
        out.append('# caught mutant: %s\n%s\n' % (what, rp['case']))
if out:
    open(os.path.join(ROOT, 'corpus', 'C14', 'mutant-witnesses.cases'), 'w').write(''.join(out))
print('written', len(out), 'mutant witnesses')
