#!/usr/bin/env python3
"""Translator: re-reads /repo/src (or a snapshot of it) and regenerates
coq/Generated/SrcConsts.v -- the codec alphabets, DOWNCODECCHECK1, raw header and every
protocol constant the Coq theorems are stated against.  Every item is located by an
anchored regular expression; a missing anchor raises TranslatorError (reported by the
check driver as a broken correspondence).

Usage: gen_consts.py <srcdir> <out.v>
"""
import re, sys, os, json


class TranslatorError(Exception):
    pass


def read(srcdir, name):
    p = os.path.join(srcdir, name)
    try:
        with open(p, 'r', encoding='latin-1') as f:
            return f.read()
    except OSError as e:
        raise TranslatorError('translator: cannot read %s: %s' % (name, e))


def strip_comments(text):
    return re.sub(r'/\*.*?\*/', ' ', text, flags=re.S)


def parse_c_string_literals(s):
    """s: text containing one or more adjacent C string literals; returns list of ints."""
    out = []
    i = 0
    n = len(s)
    while i < n:
        if s[i] != '"':
            if s[i] in ' \t\r\n\\':
                i += 1
                continue
            raise TranslatorError('translator: unexpected char %r in string literal group' % s[i])
        i += 1
        while i < n and s[i] != '"':
            c = s[i]
            if c == '\\':
                i += 1
                c = s[i]
                if c in '01234567':
                    j = i
                    v = 0
                    while j < n and j < i + 3 and s[j] in '01234567':
                        v = v * 8 + int(s[j])
                        j += 1
                    out.append(v & 0xff)
                    i = j
                    continue
                elif c == 'x':
                    j = i + 1
                    v = 0
                    while j < n and s[j] in '0123456789abcdefABCDEF':
                        v = v * 16 + int(s[j], 16)
                        j += 1
                    out.append(v & 0xff)
                    i = j
                    continue
                else:
                    m = {'n': 10, 't': 9, 'r': 13, '0': 0, '\\': 92, '"': 34, "'": 39, 'a': 7, 'b': 8, 'f': 12, 'v': 11}
                    if c not in m:
                        raise TranslatorError('translator: unknown escape \\%s' % c)
                    out.append(m[c])
                    i += 1
                    continue
            out.append(ord(c))
            i += 1
        i += 1  # closing quote
    return out


def find_table(text, name, fname):
    m = re.search(r'static\s+const\s+(?:unsigned\s+)?char\s+' + re.escape(name) + r'\s*\[\s*\]\s*=\s*((?:\s*"(?:[^"\\]|\\.)*")+)\s*;', text)
    if not m:
        raise TranslatorError('translator: anchor table %s not found in %s' % (name, fname))
    return parse_c_string_literals(m.group(1))


def find_define_int(text, name, fname):
    m = re.search(r'^\s*#\s*define\s+' + re.escape(name) + r'\s+\(?\s*(0[xX][0-9a-fA-F]+|\d+)\s*\)?\s*(?:/\*.*)?$', text, flags=re.M)
    if not m:
        raise TranslatorError('translator: anchor #define %s not found in %s' % (name, fname))
    return int(m.group(1), 0)


def find_define_expr(text, name, fname, env):
    m = re.search(r'^\s*#\s*define\s+' + re.escape(name) + r'\s+(.+?)\s*(?:/\*.*)?$', text, flags=re.M)
    if not m:
        raise TranslatorError('translator: anchor #define %s not found in %s' % (name, fname))
    expr = m.group(1)
    if not re.fullmatch(r'[\w\s()+\-*/|&<>x]+', expr):
        raise TranslatorError('translator: #define %s has an unsupported expression %r' % (name, expr))
    try:
        return int(eval(expr, {'__builtins__': {}}, dict(env)))
    except Exception as e:
        raise TranslatorError('translator: cannot evaluate #define %s = %r: %s' % (name, expr, e))


def find_define_string(text, name, fname):
    m = re.search(r'^\s*#\s*define\s+' + re.escape(name) + r'\s*\\?\s*\n?((?:\s*"(?:[^"\\]|\\.)*"\s*\\?\s*\n?)+)', text, flags=re.M)
    if not m:
        raise TranslatorError('translator: anchor #define %s (string) not found in %s' % (name, fname))
    return parse_c_string_literals(m.group(1))


# ---- soft anchors ------------------------------------------------------------------------------------------------
# Literals that only occur inline (loop bounds, length limits, time-outs, format details) are found by anchored regular
# expressions.  A behaviour-preserving rewrite (a magic number turned into a #define or a sizeof, a renamed local, an
# inverted guard) can make such an anchor miss although nothing changed.  For these BEHAVIOURAL constants the tie to the
# code does not rest on the translator alone: the correspondence runs execute the real code against the model at exactly
# these boundaries.  So when an anchor misses, the value recorded in tools/consts_defaults.json (generated from the tree
# the models were written against: `gen_consts.py <src> --write-defaults`) is used, the miss is reported in the evidence
# (`translator_soft_anchors_missed`), and the correspondence decides.  An anchor that still MATCHES with another value
# (63 -> 64) is not affected: the new value goes into SrcConsts.v and the proofs are re-checked against it.
DEFAULTS_PATH = os.path.join(os.path.dirname(os.path.abspath(__file__)), 'consts_defaults.json')
try:
    with open(DEFAULTS_PATH) as _f:
        _DEFAULTS = json.load(_f)
except (OSError, ValueError):
    _DEFAULTS = {}
_RECORD = None
SOFT_MISSED = []
# anchors whose fact is tied by the translator ALONE (code in main() that no correspondence run executes) stay hard
HARD_ANCHORS = ()      # every anchor is also exercised by a correspondence stage (netmask range: startup stage of checks/c18.py)


def anchored_int(text, pattern, what, fname):
    m = re.search(pattern, text, flags=re.S)
    if not m:
        d = _DEFAULTS.get('anchors', {})
        if what not in d or what in HARD_ANCHORS:
            raise TranslatorError('translator: anchor %s not found in %s' % (what, fname))
        SOFT_MISSED.append('%s (%s)' % (what, fname))
        v = d[what]
    else:
        v = int(m.group(1), 0)
    if _RECORD is not None:
        _RECORD['anchors'][what] = v
    return v


def soft_block(name, fn, srcdir):
    """a block of structural anchors local to one property: (constants, error text or None)"""
    try:
        blk = fn(srcdir)
    except TranslatorError as e:
        d = _DEFAULTS.get('blocks', {}).get(name)
        if d is None:
            return {}, str(e)
        SOFT_MISSED.append('%s block: %s' % (name, str(e)[:160]))
        return dict(d), None
    if _RECORD is not None:
        _RECORD['blocks'][name] = blk
    return blk, None


def sed_line_based(srcdir, base64_text):
    """Faithful line-based application of the sed script (s without g = first match per line)."""
    mk = read(srcdir, 'Makefile')
    m = re.search(r"sed\s+-e\s+'([^']*)'\s*<\s*base64\.c\s*>>\s*\$@", mk)
    if not m:
        raise TranslatorError('translator: anchor base64u sed rule not found in Makefile')
    cmds = []
    for cmd in m.group(1).split(';'):
        cmd = cmd.strip()
        if not cmd:
            continue
        mm = re.fullmatch(r's/(.*?)/(.*?)/(g?)', cmd)
        if not mm:
            raise TranslatorError('translator: unsupported sed command %r' % cmd)
        pat, rep, g = mm.groups()
        pat = pat.replace('\\(', '\x00').replace('\\)', '\x01')
        pat = pat.replace('(', '\\(').replace(')', '\\)').replace('+', '\\+')
        pat = pat.replace('\x00', '(').replace('\x01', ')')
        rep = re.sub(r'\\(\d)', r'\\g<\1>', rep)
        cmds.append((re.compile(pat), rep, 0 if g else 1))
    out = []
    for line in base64_text.split('\n'):
        for pat, rep, cnt in cmds:
            line = pat.sub(rep, line, count=cnt)
        out.append(line)
    return '\n'.join(out)


def c13_constants(srcdir):
    """C13: shell command templates, buffer sizes, mtu bounds and the validation structure of
    tun_setip (LINUX branch of tun.c), login reply scanf format and call order (client.c)."""
    C = {}
    tun_c = strip_comments(read(srcdir, 'tun.c'))
    lit = r'((?:\s*"(?:[^"\\]|\\.)*")+)'
    ifconfigpath = find_define_string(tun_c, 'IFCONFIGPATH', 'tun.c')
    m = re.search(r'\ntun_setip\s*\(.*?snprintf\s*\(\s*cmdline\s*,\s*sizeof\s*\(\s*cmdline\s*\)\s*,\s*IFCONFIGPATH' + lit +
                  r'\s*,\s*if_name\s*,\s*(\w+)\s*,\s*(\w+)\s*,\s*inet_ntoa\s*\(\s*net\s*\)\s*\)\s*;', tun_c, flags=re.S)
    if not m:
        raise TranslatorError('translator: anchor tun_setip ifconfig snprintf (format, if_name, <addr>, <addr>, inet_ntoa(net)) not found in tun.c')
    C['SETIP_FMT'] = ifconfigpath + parse_c_string_literals(m.group(1))
    args = [m.group(2), m.group(3)]
    pre = tun_c[tun_c.index('\ntun_setip'):m.start(1)]
    # which address each %s receives: 0 = ip, 1 = other_ip (display_ip resolved through the non-FREEBSD branch)
    md = re.search(r'#\s*ifdef\s+FREEBSD\s*display_ip\s*=\s*\w+\s*;[^#]*#\s*else\s*display_ip\s*=\s*(\w+)\s*;\s*#\s*endif', pre)
    for i, a in enumerate(args):
        if a == 'display_ip':
            if not md:
                raise TranslatorError('translator: anchor display_ip assignment (non-FREEBSD branch) not found in tun_setip')
            a = md.group(1)
        if a not in ('ip', 'other_ip'):
            raise TranslatorError('translator: tun_setip interpolates %r, which is neither ip nor other_ip' % a)
        C['SETIP_ARG%d' % (i + 1)] = 0 if a == 'ip' else 1
    # validation: every  if (<cond>) { ... return 1; }  before the snprintf whose condition mentions an address
    flags = dict(SETIP_CHECK_INET_ADDR=0, SETIP_PTON_IP=0, SETIP_PTON_OTHER=0)
    for mm in re.finditer(r'\bif\s*\(((?:[^(){}]|\([^(){}]*\))*)\)\s*\{[^{}]*\breturn\s+1\s*;\s*\}', pre):
        cond = mm.group(1)
        if 'ip' not in cond:
            continue
        for term in cond.split('||'):
            term = ' '.join(term.split())
            if re.fullmatch(r'inet_addr ?\( ?ip ?\) ?== ?INADDR_NONE', term):
                flags['SETIP_CHECK_INET_ADDR'] = 1
            elif re.fullmatch(r'inet_pton ?\( ?AF_INET ?, ?ip ?, ?&\w+ ?\) ?!= ?1', term):
                flags['SETIP_PTON_IP'] = 1
            elif re.fullmatch(r'inet_pton ?\( ?AF_INET ?, ?other_ip ?, ?&\w+ ?\) ?!= ?1', term):
                flags['SETIP_PTON_OTHER'] = 1
            else:
                raise TranslatorError('translator: tun_setip rejects on a condition that is not modelled: %r' % term)
    C.update(flags)
    m = re.search(r'\ntun_setmtu\s*\(.*?snprintf\s*\(\s*cmdline\s*,\s*sizeof\s*\(\s*cmdline\s*\)\s*,\s*IFCONFIGPATH' + lit +
                  r'\s*,\s*if_name\s*,\s*mtu\s*\)\s*;', tun_c, flags=re.S)
    if not m:
        raise TranslatorError('translator: anchor tun_setmtu ifconfig snprintf (format, if_name, mtu) not found in tun.c')
    C['SETMTU_FMT'] = ifconfigpath + parse_c_string_literals(m.group(1))
    C['SETIP_CMDLINE_SIZE'] = anchored_int(tun_c, r'\ntun_setip\s*\([^)]*\)\s*\{\s*char\s+cmdline\s*\[\s*(\d+)\s*\]', 'tun_setip cmdline size', 'tun.c')
    C['SETMTU_CMDLINE_SIZE'] = anchored_int(tun_c, r'\ntun_setmtu\s*\([^)]*\)\s*\{.*?char\s+cmdline\s*\[\s*(\d+)\s*\]', 'tun_setmtu cmdline size', 'tun.c')
    C['IFNAME_SIZE'] = anchored_int(tun_c, r'static\s+char\s+if_name\s*\[\s*(\d+)\s*\]', 'if_name size', 'tun.c')
    C['MTU_LO'] = anchored_int(tun_c, r'\ntun_setmtu\s*\(const\s+unsigned\s+mtu\)[^;]*;\s*if\s*\(\s*mtu\s*>\s*(\d+)\s*&&\s*mtu\s*<=\s*\d+\s*\)\s*\{\s*snprintf', 'tun_setmtu lower bound', 'tun.c')
    C['MTU_HI'] = anchored_int(tun_c, r'\ntun_setmtu\s*\(const\s+unsigned\s+mtu\)[^;]*;\s*if\s*\(\s*mtu\s*>\s*\d+\s*&&\s*mtu\s*<=\s*(\d+)\s*\)\s*\{\s*snprintf', 'tun_setmtu upper bound', 'tun.c')
    client_c = strip_comments(read(srcdir, 'client.c'))
    m = re.search(r'\nhandshake_login\s*\(.*?sscanf\s*\(\s*in\s*,' + lit + r'\s*,\s*server\s*,\s*client\s*,\s*&mtu\s*,\s*&netmask\s*\)\s*==\s*4\s*\)\s*\{'
                  r'\s*server\s*\[64\]\s*=\s*0\s*;\s*client\s*\[64\]\s*=\s*0\s*;\s*if\s*\(\s*tun_setip\s*\(\s*client\s*,\s*server\s*,\s*netmask\s*\)\s*==\s*0\s*&&'
                  r'\s*tun_setmtu\s*\(\s*mtu\s*\)\s*==\s*0\s*\)', client_c, flags=re.S)
    if not m:
        raise TranslatorError('translator: anchor handshake_login "sscanf(in, fmt, server, client, &mtu, &netmask) == 4 ... '
                              'tun_setip(client, server, netmask) == 0 && tun_setmtu(mtu) == 0" not found in client.c')
    C['LOGIN_FMT'] = parse_c_string_literals(m.group(1))
    return C


def c05_constants(srcdir):
    """C05: sizes of the fixed buffers the server-side safety theorems refer to (iodined.c, user.h,
    common.h).  A size is a product/sum of decimal literals (64*1024, 8 + 1)."""
    def size_expr(txt):
        txt = txt.strip()
        if not re.fullmatch(r'[0-9+*() \t]+', txt):
            raise TranslatorError('translator: C05 buffer size %r is not a literal expression' % txt)
        return int(eval(txt, {'__builtins__': {}}, {}))

    def grab(text, pattern, what, fname):
        m = re.search(pattern, text, flags=re.S)
        if not m:
            raise TranslatorError('translator: anchor %s not found in %s' % (what, fname))
        return m

    C = {}
    ic = strip_comments(read(srcdir, 'iodined.c'))
    m = grab(ic, r'save_to_qmem_pingordata\s*\([^)]*\)\s*\{.*?char\s+cmc\s*\[([^\]]+)\]\s*;.*?size_t\s+cmcsize\s*=\s*sizeof\s*\(\s*cmc\s*\)\s*(-\s*\d+)?\s*;',
             'save_to_qmem_pingordata cmc[] / cmcsize', 'iodined.c')
    C['C05_CMC_BUF'] = size_expr(m.group(1))
    C['C05_CMC_CAP'] = C['C05_CMC_BUF'] - (int(m.group(2).replace('-', '').strip()) if m.group(2) else 0)
    m = grab(ic, r'\nstatic\s+int\s+send_chunk_or_dataless\s*\([^)]*\)\s*\{\s*char\s+pkt\s*\[([^\]]+)\]\s*;.*?datalen\s*=\s*MIN\s*\(\s*datalen\s*,\s*sizeof\s*\(\s*pkt\s*\)\s*-\s*(\d+)\s*\)',
             'send_chunk_or_dataless pkt[] / clamp', 'iodined.c')
    C['C05_PKT_BUF'] = size_expr(m.group(1))
    C['C05_PKT_HDR'] = int(m.group(2))
    m = grab(ic, r'\nstatic\s+void\s+send_raw\s*\([^)]*\)\s*\{\s*char\s+packet\s*\[([^\]]+)\]\s*;.*?len\s*=\s*MIN\s*\(\s*sizeof\s*\(\s*packet\s*\)\s*-\s*RAW_HDR_LEN\s*,\s*buflen\s*\)',
             'send_raw packet[] / clamp', 'iodined.c')
    C['C05_RAWPKT_BUF'] = size_expr(m.group(1))
    m = grab(ic, r'\nhandle_null_request\s*\([^)]*\)\s*\{.*?char\s+in\s*\[([^\]]+)\]\s*;.*?char\s+unpacked\s*\[([^\]]+)\]\s*;.*?memcpy\s*\(\s*in\s*,\s*q->name\s*,\s*MIN\s*\(\s*domain_len\s*,\s*sizeof\s*\(\s*in\s*\)\s*\)\s*\)',
             'handle_null_request in[] / unpacked[] / copy', 'iodined.c')
    C['C05_IN_BUF'] = size_expr(m.group(1))
    C['C05_UNPACKED_BUF'] = size_expr(m.group(2))
    grab(ic, r'save_to_dnscache\s*\([^)]*\)[^{]*\{.*?if\s*\(\s*answerlen\s*>\s*sizeof\s*\(\s*users\[userid\]\.dnscache_answer\[fill\]\s*\)\s*\)\s*return\s*;',
         'save_to_dnscache size guard', 'iodined.c')
    grab(ic, r'read\s*=\s*MIN\s*\(\s*read\s*,\s*sizeof\s*\(\s*users\[userid\]\.inpacket\.data\s*\)\s*-\s*users\[userid\]\.inpacket\.offset\s*\)\s*;',
         'data handler reassembly clamp', 'iodined.c')
    grab(ic, r'datalen\s*=\s*MIN\s*\(\s*datalen\s*,\s*sizeof\s*\(\s*users\[userid\]\.outpacket\.data\s*\)\s*\)\s*;',
         'start_new_outpacket clamp', 'iodined.c')
    uh = strip_comments(read(srcdir, 'user.h'))
    m = grab(uh, r'char\s+dnscache_answer\s*\[\s*DNSCACHE_LEN\s*\]\s*\[([^\]]+)\]\s*;', 'dnscache_answer[][]', 'user.h')
    C['C05_DNSCACHE_ANSWER'] = size_expr(m.group(1))
    ch = strip_comments(read(srcdir, 'common.h'))
    m = grab(ch, r'struct\s+packet\s*\{.*?char\s+data\s*\[([^\]]+)\]\s*;', 'struct packet data[]', 'common.h')
    C['C05_PACKET_DATA'] = size_expr(m.group(1))
    return C


def _func_body(text, name, fname):
    """text of the body { ... } of the function definition `name(` (brace matched)."""
    m = re.search(r'\n' + re.escape(name) + r'\s*\([^)]*\)\s*(?:/\*.*?\*/\s*)*\{', text, flags=re.S)
    if not m:
        raise TranslatorError('translator: anchor function %s not found in %s' % (name, fname))
    i = m.end()
    depth = 1
    while i < len(text) and depth:
        if text[i] == '{':
            depth += 1
        elif text[i] == '}':
            depth -= 1
        i += 1
    if depth:
        raise TranslatorError('translator: unbalanced braces in %s of %s' % (name, fname))
    return text[m.end():i - 1]


def _block_after(text, start_pat, what, fname):
    """(body, rest): the brace-matched block opened by the regex start_pat (which must end in '{')."""
    m = re.search(start_pat, text, flags=re.S)
    if not m:
        raise TranslatorError('translator: anchor %s not found in %s' % (what, fname))
    i = m.end()
    depth = 1
    while i < len(text) and depth:
        if text[i] == '{':
            depth += 1
        elif text[i] == '}':
            depth -= 1
        i += 1
    return text[m.end():i - 1], text[i:]


def c11_constants(srcdir):
    """C11: the handshake's test patterns and decision structure (client.c), the server's codec
    numbering and probe pattern (iodined.c).  Lists of pairs are emitted flattened."""
    C = {}
    T = {'T_NULL': 10, 'T_TXT': 16, 'T_SRV': 33, 'T_MX': 15, 'T_CNAME': 5, 'T_A': 1,
         'T_PRIVATE': find_define_int(read(srcdir, 'common.h'), 'T_PRIVATE', 'common.h')}
    ENC = {'base32_ops': 0, 'base64_ops': 1, 'base64u_ops': 2, 'base128_ops': 3}
    cl = strip_comments(read(srcdir, 'client.c'))
    lit = r'((?:\s*"(?:[^"\\]|\\.)*")+)'
    up = _func_body(cl, 'handshake_upenc_autodetect', 'client.c')
    pats = {}
    for m in re.finditer(r'const\s+char\s*\*\s*(pat\w+)\s*=' + lit + r'\s*;', up):
        pats[m.group(1)] = parse_c_string_literals(m.group(2))
    loop, rest = _block_after(up, r'while\s*\(\s*1\s*\)\s*\{', 'handshake_upenc_autodetect while(1) loop', 'client.c')
    # the chain: each test is  res = handshake_upenctest(dns_fd, P); if (res < 0) return 0; else if (res == 0) break;
    chain = re.findall(r'res\s*=\s*handshake_upenctest\s*\(\s*dns_fd\s*,\s*(\w+)\s*\)\s*;\s*if\s*\(\s*res\s*<\s*0\s*\)\s*\{?\s*return\s+0\s*;\s*\}?'
                       r'\s*else\s+if\s*\(\s*res\s*==\s*0\s*\)\s*\{?\s*break\s*;\s*\}?', loop)
    if len(chain) != len(re.findall(r'handshake_upenctest\s*\(', loop)) or not chain:
        raise TranslatorError('translator: handshake_upenc_autodetect loop is not a chain of "res<0: return 0; res==0: break" tests')
    mret = re.search(r'\breturn\s+(\d+)\s*;\s*$', loop.strip())
    if not mret:
        raise TranslatorError('translator: anchor "return N;" at the end of the Base128 chain not found in client.c')
    alts = re.findall(r'res\s*=\s*handshake_upenctest\s*\(\s*dns_fd\s*,\s*(\w+)\s*\)\s*;\s*if\s*\(\s*res\s*<\s*0\s*\)\s*\{\s*return\s+0\s*;\s*\}'
                      r'\s*else\s+if\s*\(\s*res\s*>\s*0\s*\)\s*\{\s*return\s+(\d+)\s*;\s*\}', rest)
    if len(alts) != len(re.findall(r'handshake_upenctest\s*\(', rest)) or not alts:
        raise TranslatorError('translator: the tests after the Base128 chain are not of the form "res<0: return 0; res>0: return N"')
    if not re.search(r'\breturn\s+0\s*;\s*$', rest.strip()):
        raise TranslatorError('translator: handshake_upenc_autodetect does not end in "return 0;"')
    for p in chain + [a for a, _ in alts]:
        if p not in pats:
            raise TranslatorError('translator: test pattern %s is not a string literal of handshake_upenc_autodetect' % p)
    C['UPENC_CHAIN_N'] = len(chain)
    for i, p in enumerate(chain):
        C['upenc_chain_%d' % i] = pats[p]
    C['upenc_chain'] = 'LISTREF ' + ' '.join('src_upenc_chain_%d' % i for i in range(len(chain)))
    C['UPENC_CHAIN_RET'] = int(mret.group(1))
    C['UPENC_ALT_N'] = len(alts)
    for i, (p, r) in enumerate(alts):
        C['upenc_alt_%d' % i] = pats[p]
    C['upenc_alt'] = 'LISTREF ' + ' '.join('src_upenc_alt_%d' % i for i in range(len(alts)))
    C['upenc_alt_ret'] = [int(r) for _, r in alts]
    # client_handshake: result of the autodetect -> argument of handshake_switch_codec
    hs = _func_body(cl, 'client_handshake', 'client.c')
    sw = re.findall(r'upcodec\s*==\s*(\d+)\s*\)\s*\{\s*handshake_switch_codec\s*\(\s*dns_fd\s*,\s*(\d+)\s*\)', hs)
    if not sw:
        raise TranslatorError('translator: anchor "upcodec == N) { handshake_switch_codec(dns_fd, B)" not found in client.c')
    C['upcodec_res'] = [int(a) for a, _ in sw]
    C['upcodec_bits'] = [int(b) for _, b in sw]
    sc = _func_body(cl, 'handshake_switch_codec', 'client.c')
    cb = re.findall(r'bits\s*==\s*(\d+)\s*\)\s*tempenc\s*=\s*&\s*(\w+)\s*;', sc)
    if not cb or any(e not in ENC for _, e in cb):
        raise TranslatorError('translator: anchor "bits == B) tempenc = &<codec>_ops" not found in client.c')
    C['client_bits'] = [int(b) for b, _ in cb]
    C['client_bits_codec'] = [ENC[e] for _, e in cb]
    # downstream autodetect: order of the letters tried
    dn = _func_body(cl, 'handshake_downenc_autodetect', 'client.c')
    C['downenc_order'] = [ord(c) for c in re.findall(r"handshake_downenctest\s*\(\s*dns_fd\s*,\s*'(.)'\s*\)", dn)]
    nc = _func_body(cl, 'handshake_qtype_numcvt', 'client.c')
    order = re.findall(r'case\s+(\d+)\s*:\s*return\s+(T_\w+)\s*;', nc)
    if [int(a) for a, _ in order] != list(range(len(order))) or any(t not in T for _, t in order):
        raise TranslatorError('translator: handshake_qtype_numcvt is not "case 0..n-1: return T_x"')
    C['qtype_order'] = [T[t] for _, t in order]
    qa = _func_body(cl, 'handshake_qtype_autodetect', 'client.c')
    C['QTYPE_TIMEOUT_MAX'] = anchored_int(qa, r'for\s*\(\s*timeout\s*=\s*1\s*;\s*running\s*&&\s*timeout\s*<=\s*(\d+)\s*;', 'qtype autodetect timeout bound', 'client.c')
    # fragment size probing
    ap = _func_body(cl, 'handshake_autoprobe_fragsize', 'client.c')
    C['PROBE_START'] = anchored_int(ap, r'int\s+proposed_fragsize\s*=\s*(\d+)\s*;', 'autoprobe start size', 'client.c')
    C['PROBE_RANGE'] = anchored_int(ap, r'int\s+range\s*=\s*(\d+)\s*;', 'autoprobe start range', 'client.c')
    C['PROBE_RANGE_MIN'] = anchored_int(ap, r'range\s*>\s*0\s*&&\s*\(\s*range\s*>=\s*(\d+)\s*\|\|', 'autoprobe early-stop range', 'client.c')
    C['PROBE_ENOUGH'] = anchored_int(ap, r'\|\|\s*max_fragsize\s*<\s*(\d+)\s*\)\s*\)', 'autoprobe early-stop size', 'client.c')
    C['PROBE_TRIES'] = anchored_int(ap, r'for\s*\(\s*i\s*=\s*0\s*;\s*running\s*&&\s*i\s*<\s*(\d+)\s*;', 'autoprobe tries', 'client.c')
    C['PROBE_MIN_OK'] = anchored_int(ap, r'if\s*\(\s*max_fragsize\s*<=\s*(\d+)\s*\)', 'autoprobe minimum accepted', 'client.c')
    C['PROBE_HDR'] = anchored_int(ap, r'return\s+max_fragsize\s*-\s*(\d+)\s*;', 'autoprobe header allowance', 'client.c')
    m = re.search(r'range\s*>>=\s*(\d+)\s*;\s*if\s*\(\s*max_fragsize\s*==\s*proposed_fragsize\s*\)\s*\{\s*proposed_fragsize\s*([+-])=\s*range\s*;\s*\}'
                  r'\s*else\s*\{.*?proposed_fragsize\s*([+-])=\s*range\s*;\s*\}', ap, flags=re.S)
    if not m:
        raise TranslatorError('translator: anchor autoprobe step (range >>= k; == : +=/-= range; else +=/-= range) not found in client.c')
    C['PROBE_SHIFT'] = int(m.group(1))
    C['PROBE_OK_UP'] = 1 if m.group(2) == '+' else 0
    C['PROBE_FAIL_UP'] = 1 if m.group(3) == '+' else 0
    fc = _func_body(cl, 'fragsize_check', 'client.c')
    C['PROBE_BYTE2'] = anchored_int(fc, r'in\s*\[\s*2\s*\]\s*&\s*0xff\s*\)\s*!=\s*(\d+)', 'fragsize_check byte 2', 'client.c')
    C['PROBE_STEP'] = anchored_int(fc, r'for\s*\(\s*i\s*=\s*3\s*;\s*i\s*<\s*read\s*;\s*i\+\+\s*,\s*v\s*=\s*\(\s*v\s*\+\s*(\d+)\s*\)\s*&\s*0xff\s*\)\s*if\s*\(\s*\(\s*in\s*\[\s*i\s*\]\s*&\s*0xff\s*\)\s*!=\s*v\s*\)',
                                   'fragsize_check pattern loop', 'client.c')
    m = re.search(r'if\s*\(\s*okay\s*\)\s*\{.*?\}\s*else\s*\{(.*)\}', fc, flags=re.S)
    if not m:
        raise TranslatorError('translator: anchor fragsize_check "if (okay) {...} else {...}" not found in client.c')
    C['PROBE_CORRUPT_FATAL'] = 1 if re.search(r'\*\s*max_fragsize\s*=\s*-\s*1\s*;', m.group(1)) else 0
    sv = strip_comments(read(srcdir, 'iodined.c'))
    C['SRV_PROBE_BYTE2'] = anchored_int(sv, r'buf\s*\[\s*2\s*\]\s*=\s*(\d+)\s*;', 'server probe byte 2', 'iodined.c')
    C['SRV_PROBE_STEP'] = anchored_int(sv, r'for\s*\(\s*i\s*=\s*3\s*;\s*i\s*<\s*2048\s*;\s*i\+\+\s*,\s*v\s*=\s*\(\s*v\s*\+\s*(\d+)\s*\)\s*&\s*0xff\s*\)', 'server probe step', 'iodined.c')
    sc2 = re.findall(r'case\s+(\d+)\s*:\s*enc\s*=\s*&\s*(\w+)\s*;\s*user_switch_codec', sv)
    if not sc2 or any(e not in ENC for _, e in sc2):
        raise TranslatorError('translator: anchor server codec switch "case B: enc = &<codec>_ops; user_switch_codec" not found in iodined.c')
    C['server_bits'] = [int(b) for b, _ in sc2]
    C['server_bits_codec'] = [ENC[e] for _, e in sc2]
    m = re.search(r"case\s+'R'\s*:\s*case\s+'r'\s*:\s*if\s*\(((?:\s*q->type\s*==\s*T_\w+\s*(?:\|\|)?)+)\)\s*\{\s*write_dns\s*\(\s*dns_fd\s*,\s*q\s*,\s*datap", sv)
    if not m:
        raise TranslatorError("translator: anchor 'Y' handler raw case (types served) not found in iodined.c")
    C['y_raw_types'] = [T[t] for t in re.findall(r'T_\w+', m.group(1))]
    m = re.search(r"case\s+'T'\s*:\s*case\s+'t'\s*:\s*if\s*\(((?:\s*q->type\s*==\s*T_\w+\s*(?:\|\|)?)+)\)\s*\{\s*write_dns\s*\(\s*dns_fd\s*,\s*q\s*,\s*datap", sv)
    if not m:
        raise TranslatorError("translator: anchor 'Y' handler Base32 case (types served) not found in iodined.c")
    C['y_text_types'] = [T[t] for t in re.findall(r'T_\w+', m.group(1))]
    return C


def c19_glue_constants(srcdir):
    """C19: the glue that carries the login challenge from the server's version reply into the
    client's login.  client.c handshake_version(): the element type of in[], the minimum reply
    length, the four OR-ed operands of `payload = ...` (index, mask present?, mask, (uint32_t)
    cast present?, shift), the index userid is read from.  iodined.c send_version_response():
    size of out[], the VACK tag, the four `out[i] = ((payload >> s) & m);` stores and the userid
    store.  The types (uint32_t payload, int *seed, int users[].seed) and the call chain
    (rand() -> send_version_response; handshake_version -> handshake_login / handshake_raw_udp
    -> send_raw_udp_login) are anchors without a constant.  Any other shape raises."""
    C = {}
    num = r'(0[xX][0-9a-fA-F]+|\d+)'
    cl = strip_comments(read(srcdir, 'client.c'))

    def need(text, pat, what, fname):
        m = re.search(pat, text, flags=re.S)
        if not m:
            raise TranslatorError('translator: anchor %s not found in %s' % (what, fname))
        return m

    need(cl, r'\nhandshake_version\s*\(\s*int\s+dns_fd\s*,\s*int\s*\*\s*seed\s*\)', 'handshake_version(int dns_fd, int *seed)', 'client.c')
    hv = _func_body(cl, 'handshake_version', 'client.c')
    m = need(hv, r'\b((?:(?:un)?signed\s+)?char|uint8_t|int8_t)\s+in\s*\[\s*\d+\s*\]\s*;', 'declaration of in[] in handshake_version', 'client.c')
    ty = ' '.join(m.group(1).split())
    C['VACK_CLI_SIGNED'] = 0 if ty in ('unsigned char', 'uint8_t') else 1
    need(hv, r'\buint32_t\s+payload\s*;', 'uint32_t payload in handshake_version', 'client.c')
    m = need(hv, r'if\s*\(\s*read\s*>=\s*(\d+)\s*\)\s*\{\s*payload\s*=\s*(.*?);', 'if (read >= N) { payload = ...; in handshake_version', 'client.c')
    C['VACK_CLI_MINLEN'] = int(m.group(1))
    expr = re.sub(r'\s+', '', m.group(2))

    def strip_outer(e):
        while e.startswith('(') and e.endswith(')'):
            depth = 0
            for i, ch in enumerate(e):
                depth += ch == '('
                depth -= ch == ')'
                if depth == 0 and i < len(e) - 1:
                    return e
            e = e[1:-1]
        return e

    def split_or(e):
        parts, depth, cur = [], 0, ''
        for ch in e:
            depth += ch == '('
            depth -= ch == ')'
            if ch == '|' and depth == 0:
                parts.append(cur)
                cur = ''
            else:
                cur += ch
        return parts + [cur]

    idx, masked, mask, cast, shift = [], [], [], [], []
    for op in split_or(strip_outer(expr)):
        o = strip_outer(op)
        c = 0
        if o.startswith('(uint32_t)'):
            c = 1
            o = o[len('(uint32_t)'):]
        mm = (re.fullmatch(r'\(in\[(\d+)\]&' + num + r'\)(?:<<(\d+))?', o) or
              re.fullmatch(r'in\[(\d+)\]&' + num + r'()', strip_outer(o)))
        if mm:
            i, k, sh, has = int(mm.group(1)), int(mm.group(2), 0), int(mm.group(3) or 0), 1
        else:
            mm = re.fullmatch(r'in\[(\d+)\](?:<<(\d+))?', o) or re.fullmatch(r'\(in\[(\d+)\]\)(?:<<(\d+))?', o)
            if not mm:
                raise TranslatorError('translator: operand %r of payload = ... in handshake_version (client.c) is not of the form '
                                      '[(uint32_t)] (in[i] [& mask]) [<< shift]' % op)
            i, k, sh, has = int(mm.group(1)), 0, int(mm.group(2) or 0), 0
        idx.append(i)
        masked.append(has)
        mask.append(k)
        cast.append(c)
        shift.append(sh)
    C['VACK_CLI_IDX'], C['VACK_CLI_MASKED'], C['VACK_CLI_MASK'] = idx, masked, mask
    C['VACK_CLI_CAST'], C['VACK_CLI_SHIFT'] = cast, shift
    m = need(hv, r'strncmp\s*\(\s*"VACK"\s*,\s*in\s*,\s*4\s*\)\s*==\s*0\s*\)\s*\{\s*\*\s*seed\s*=\s*payload\s*;\s*userid\s*=\s*in\s*\[\s*(\d+)\s*\]\s*;',
             'VACK branch "*seed = payload; userid = in[N];" of handshake_version', 'client.c')
    C['VACK_CLI_UID_IDX'] = int(m.group(1))
    ch = _func_body(cl, 'client_handshake', 'client.c')
    need(ch, r'handshake_version\s*\(\s*dns_fd\s*,\s*&\s*seed\s*\)\s*;.*?handshake_login\s*\(\s*dns_fd\s*,\s*seed\s*\)\s*;.*?handshake_raw_udp\s*\(\s*dns_fd\s*,\s*seed\s*\)',
         'client_handshake passing seed from handshake_version to handshake_login and handshake_raw_udp', 'client.c')
    need(_func_body(cl, 'handshake_login', 'client.c'), r'login_calculate\s*\(\s*login\s*,\s*16\s*,\s*password\s*,\s*seed\s*\)\s*;',
         'login_calculate(login, 16, password, seed) in handshake_login', 'client.c')
    need(_func_body(cl, 'handshake_raw_udp', 'client.c'), r'send_raw_udp_login\s*\(\s*dns_fd\s*,\s*seed\s*\)\s*;',
         'send_raw_udp_login(dns_fd, seed) in handshake_raw_udp', 'client.c')

    sv = strip_comments(read(srcdir, 'iodined.c'))
    body, _ = _block_after(sv, r'send_version_response\s*\(\s*int\s+fd\s*,\s*version_ack_t\s+ack\s*,\s*uint32_t\s+payload\s*,\s*int\s+userid\s*,\s*struct\s+query\s*\*\s*q\s*\)\s*\{',
                           'send_version_response(int fd, version_ack_t ack, uint32_t payload, int userid, struct query *q)', 'iodined.c')
    m = need(body, r'\bchar\s+out\s*\[\s*(\d+)\s*\]\s*;', 'char out[N] in send_version_response', 'iodined.c')
    C['VACK_SRV_OUTLEN'] = int(m.group(1))
    m = need(body, r'case\s+VERSION_ACK\s*:\s*strncpy\s*\(\s*out\s*,\s*("(?:[^"\\]|\\.)*")\s*,\s*sizeof\s*\(\s*out\s*\)\s*\)\s*;',
             'case VERSION_ACK: strncpy(out, "...", sizeof(out)) in send_version_response', 'iodined.c')
    C['VACK_SRV_TAG'] = parse_c_string_literals(m.group(1))
    st = re.findall(r'out\s*\[\s*(\d+)\s*\]\s*=\s*\(\s*\(\s*payload\s*(?:>>\s*(\d+)\s*)?\)\s*&\s*' + num + r'\s*\)\s*;', body)
    if len(st) != 4 or len(re.findall(r'\bpayload\b', body)) != 4:
        raise TranslatorError('translator: send_version_response (iodined.c) does not store payload as four "out[i] = ((payload >> s) & m);"')
    C['VACK_SRV_IDX'] = [int(a) for a, _, _ in st]
    C['VACK_SRV_SHIFT'] = [int(b or 0) for _, b, _ in st]
    C['VACK_SRV_MASK'] = [int(c, 0) for _, _, c in st]
    m = need(body, r'out\s*\[\s*(\d+)\s*\]\s*=\s*userid\s*&\s*' + num + r'\s*;', 'out[N] = userid & m in send_version_response', 'iodined.c')
    C['VACK_SRV_UID_IDX'], C['VACK_SRV_UID_MASK'] = int(m.group(1)), int(m.group(2), 0)
    need(body, r'write_dns\s*\(\s*fd\s*,\s*q\s*,\s*out\s*,\s*sizeof\s*\(\s*out\s*\)\s*,', 'write_dns(fd, q, out, sizeof(out), ..) in send_version_response', 'iodined.c')
    need(sv, r'users\s*\[\s*userid\s*\]\s*\.\s*seed\s*=\s*rand\s*\(\s*\)\s*;.*?send_version_response\s*\(\s*dns_fd\s*,\s*VERSION_ACK\s*,\s*users\s*\[\s*userid\s*\]\s*\.\s*seed\s*,\s*userid\s*,\s*q\s*\)\s*;',
         'users[userid].seed = rand(); ... send_version_response(dns_fd, VERSION_ACK, users[userid].seed, userid, q)', 'iodined.c')
    need(sv, r'login_calculate\s*\(\s*logindata\s*,\s*16\s*,\s*password\s*,\s*users\s*\[\s*userid\s*\]\s*\.\s*seed\s*\)\s*;',
         'login_calculate(logindata, 16, password, users[userid].seed) in the login handler', 'iodined.c')
    need(strip_comments(read(srcdir, 'user.h')), r'\bint\s+seed\s*;', 'int seed in struct tun_user', 'user.h')
    return C


def coq_list(xs):
    return '[' + '; '.join(str(x) for x in xs) + ']'


def generate(srcdir):
    del SOFT_MISSED[:]
    """Returns (coq_text, dict_of_constants)."""
    C = {}
    b32 = strip_comments(read(srcdir, 'base32.c'))
    b64raw = read(srcdir, 'base64.c')
    b64 = strip_comments(b64raw)
    b64u = strip_comments(sed_line_based(srcdir, b64raw))
    b128 = strip_comments(read(srcdir, 'base128.c'))
    C['cb32'] = find_table(b32, 'cb32', 'base32.c')
    C['cb32_ucase'] = find_table(b32, 'cb32_ucase', 'base32.c')
    C['cb64'] = find_table(b64, 'cb64', 'base64.c')
    C['cb64u'] = find_table(b64u, 'cb64', 'base64u.c (sed of base64.c)')
    C['cb128'] = find_table(b128, 'cb128', 'base128.c')
    for nm, t, f in (('BASE32_BLKSIZE_RAW', b32, 'base32.c'), ('BASE32_BLKSIZE_ENC', b32, 'base32.c'),
                     ('BASE64_BLKSIZE_RAW', b64, 'base64.c'), ('BASE64_BLKSIZE_ENC', b64, 'base64.c'),
                     ('BASE128_BLKSIZE_RAW', b128, 'base128.c'), ('BASE128_BLKSIZE_ENC', b128, 'base128.c')):
        C[nm] = find_define_int(t, nm, f)
    # number of alphabet entries iterated by *_reverse_init
    C['rev32_n'] = anchored_int(b32, r'base32_reverse_init\s*\(void\).*?for\s*\(i\s*=\s*0;\s*i\s*<\s*(\d+);', 'base32_reverse_init loop bound', 'base32.c')
    C['rev64_n'] = anchored_int(b64, r'base64_reverse_init\s*\(void\).*?for\s*\(i\s*=\s*0;\s*i\s*<\s*(\d+);', 'base64_reverse_init loop bound', 'base64.c')
    C['rev128_n'] = anchored_int(b128, r'base128_reverse_init\s*\(void\).*?for\s*\(i\s*=\s*0;\s*i\s*<\s*(\d+);', 'base128_reverse_init loop bound', 'base128.c')

    enc_h = read(srcdir, 'encoding.h')
    C['DOWNCODECCHECK1'] = find_define_string(strip_comments(enc_h), 'DOWNCODECCHECK1', 'encoding.h')
    C['DOWNCODECCHECK1_LEN'] = find_define_int(enc_h, 'DOWNCODECCHECK1_LEN', 'encoding.h')

    enc_c = strip_comments(read(srcdir, 'encoding.c'))
    C['HOSTNAME_RESERVE'] = anchored_int(enc_c, r'space\s*=\s*MIN\(\(size_t\)maxlen,\s*buflen\)\s*-\s*strlen\(topdomain\)\s*-\s*(\d+)\s*;', 'build_hostname reserve', 'encoding.c')
    C['DOT_PERIOD_BUILD'] = anchored_int(enc_c, r'space\s*-=\s*\(space\s*/\s*(\d+)\)', 'build_hostname dot period', 'encoding.c')
    C['DOT_PERIOD_DOTIFY'] = anchored_int(enc_c, r'dots\s*=\s*total\s*/\s*(\d+)\s*;', 'inline_dotify dot period', 'encoding.c')
    C['DOT_PERIOD_DOTIFY2'] = anchored_int(enc_c, r'pos\s*%\s*(\d+)\s*==\s*0', 'inline_dotify pos period', 'encoding.c')

    user_h = read(srcdir, 'user.h')
    for nm in ('USERS', 'OUTPACKETQ_LEN', 'DNSCACHE_LEN', 'QMEMPING_LEN', 'QMEMDATA_LEN'):
        C[nm] = find_define_int(user_h, nm, 'user.h')
    fw_h = read(srcdir, 'fw_query.h')
    C['FW_QUERY_CACHE_SIZE'] = find_define_int(fw_h, 'FW_QUERY_CACHE_SIZE', 'fw_query.h')
    common_h = read(srcdir, 'common.h')
    C['QUERY_NAME_SIZE'] = find_define_int(common_h, 'QUERY_NAME_SIZE', 'common.h')
    C['RAW_HDR_LEN'] = find_define_int(common_h, 'RAW_HDR_LEN', 'common.h')
    C['RAW_HDR_IDENT_LEN'] = find_define_int(common_h, 'RAW_HDR_IDENT_LEN', 'common.h')
    C['RAW_HDR_CMD'] = find_define_int(common_h, 'RAW_HDR_CMD', 'common.h')
    for nm in ('RAW_HDR_CMD_LOGIN', 'RAW_HDR_CMD_DATA', 'RAW_HDR_CMD_PING', 'RAW_HDR_CMD_MASK', 'RAW_HDR_USR_MASK'):
        C[nm] = find_define_int(common_h, nm, 'common.h')
    C['T_PRIVATE'] = find_define_int(common_h, 'T_PRIVATE', 'common.h')
    C['DNS_PORT'] = find_define_int(common_h, 'DNS_PORT', 'common.h')
    version_h = read(srcdir, 'version.h')
    C['PROTOCOL_VERSION'] = find_define_int(version_h, 'PROTOCOL_VERSION', 'version.h')
    # raw_header
    common_c = strip_comments(read(srcdir, 'common.c'))
    m = re.search(r'const\s+unsigned\s+char\s+raw_header\s*\[\s*RAW_HDR_LEN\s*\]\s*=\s*\{([^}]*)\}', common_c)
    if not m:
        raise TranslatorError('translator: anchor raw_header not found in common.c')
    C['raw_header'] = [int(x.strip(), 0) for x in m.group(1).split(',') if x.strip()]
    C['RECENT_SEQNO_WINDOW'] = anchored_int(common_c, r'recent_seqno\s*\(int ourseqno,\s*int gotseqno\).*?for\s*\(i\s*=\s*0;\s*i\s*<\s*(\d+);', 'recent_seqno window', 'common.c')
    C['TOPDOMAIN_MIN'] = anchored_int(common_c, r'check_topdomain.*?strlen\(str\)\s*<\s*(\d+)', 'check_topdomain min', 'common.c')
    C['TOPDOMAIN_MAX'] = anchored_int(common_c, r'check_topdomain.*?strlen\(str\)\s*>\s*(\d+)', 'check_topdomain max', 'common.c')
    C['TOPDOMAIN_LABEL_MAX'] = anchored_int(common_c, r'check_topdomain.*?chunklen\s*>\s*(\d+)', 'check_topdomain label max', 'common.c')
    # C17: the second (after-loop) label-length test of check_topdomain (greedy: last occurrence), query_datalen's minimum
    C['TOPDOMAIN_LABEL_MAX_END'] = anchored_int(common_c, r'check_topdomain.*chunklen\s*>\s*(\d+)', 'check_topdomain final label max', 'common.c')
    C['QUERY_DATALEN_MIN'] = anchored_int(common_c, r'query_datalen.*?tpos\s*<\s*(\d+)', 'query_datalen topdomain min', 'common.c')

    read_c = strip_comments(read(srcdir, 'read.c'))
    C['PUTNAME_LABEL_MAX'] = anchored_int(read_c, r'strlen\(word\)\s*>\s*(\d+)', 'putname label limit', 'read.c')
    C['TXT_CHUNK'] = anchored_int(read_c, r'if\s*\(tocopy\s*>\s*(\d+)\)\s*tocopy\s*=\s*\1', 'puttxtbin chunk', 'read.c')
    C['READNAME_LOOPS'] = anchored_int(read_c, r'return\s+readname_loop\(packet,\s*packetlen,\s*src,\s*dst,\s*length,\s*(\d+)\)', 'readname loop bound', 'read.c')

    user_c = strip_comments(read(srcdir, 'user.c'))
    C['USER_TIMEOUT'] = anchored_int(user_c, r'find_user_by_ip.*?last_pkt\s*\+\s*(\d+)\s*>\s*time', 'find_user_by_ip timeout', 'user.c')
    C['USER_TIMEOUT_AVAIL'] = anchored_int(user_c, r'find_available_user.*?last_pkt\s*\+\s*(\d+)\s*<\s*time', 'find_available_user timeout', 'user.c')
    C['USER_RESERVED_ADDRS'] = anchored_int(user_c, r'maxusers\s*=\s*\(1\s*<<\s*\(32\s*-\s*netbits\)\)\s*-\s*(\d+)\s*;', 'init_users reserved', 'user.c')
    C['USER_DEFAULT_FRAGSIZE_V'] = anchored_int(user_c, r'find_available_user.*?fragsize\s*=\s*(\d+)\s*;', 'find_available_user fragsize', 'user.c')
    # C18: netmask range accepted by iodined's main()
    iodined_c18 = strip_comments(read(srcdir, 'iodined.c'))
    C['NETMASK_MAX'] = anchored_int(iodined_c18, r'if\s*\(\s*netmask\s*>\s*(\d+)\s*\|\|\s*netmask\s*<\s*\d+\s*\)', 'netmask range check (max)', 'iodined.c')
    C['NETMASK_MIN'] = anchored_int(iodined_c18, r'if\s*\(\s*netmask\s*>\s*\d+\s*\|\|\s*netmask\s*<\s*(\d+)\s*\)', 'netmask range check (min)', 'iodined.c')

    # C13 anchors are kept local to C13: if one is missing the constants are omitted (Shell.v then
    # fails to build, which the C13 check reports) instead of failing the translator for every property
    blk, c13_err = soft_block('c13', c13_constants, srcdir)
    C.update(blk)

    # C11 anchors are local to C11 in the same way (Negotiate.v then fails to build)
    blk, c11_err = soft_block('c11', c11_constants, srcdir)
    C.update(blk)

    # C19: login_calculate -- bytes copied from the password buffer, 32-bit words xored, bytes hashed
    login_c = strip_comments(read(srcdir, 'login.c'))
    C['LOGIN_COPY'] = anchored_int(login_c, r'login_calculate\s*\(.*?memcpy\s*\(\s*temp\s*,\s*pass\s*,\s*(\d+)\s*\)', 'login_calculate memcpy length', 'login.c')
    # the bound of the loop over 32-bit WORDS (recognised by the ntohl in its body): a loop written over bytes instead is a different
    # shape with a different bound -- then the recorded default stands and the correspondence on login_calculate decides
    C['LOGIN_WORDS'] = anchored_int(login_c, r'login_calculate\s*\(.*?for\s*\(\s*i\s*=\s*0\s*;\s*i\s*<\s*(\d+)\s*;\s*i\+\+\s*\)\s*\{?\s*\w+\s*=\s*ntohl',
                                    'login_calculate word loop bound', 'login.c')
    C['LOGIN_MD5_LEN'] = anchored_int(login_c, r'login_calculate\s*\(.*?md5_append\s*\(\s*&ctx\s*,\s*temp\s*,\s*(\d+)\s*\)', 'login_calculate md5_append length', 'login.c')

    # C05 anchors are local to C05 (same policy as C13): a missing anchor omits the constants, so that
    # only Properties_C05.v stops building
    blk, c05_err = soft_block('c05', c05_constants, srcdir)
    C.update(blk)
    # C19 glue (version reply -> login) anchors are local to C19 in the same way (LoginGlue.v then
    # fails to build, which the C19 check reports)
    blk, c19_err = soft_block('c19glue', c19_glue_constants, srcdir)
    C.update(blk)

    lines = []
    lines.append('(* GENERATED by tools/gen_consts.py from the repository sources on every run. DO NOT EDIT. *)')
    lines.append('From Coq Require Import List NArith.')
    lines.append('Import ListNotations.')
    lines.append('Local Open Scope N_scope.')
    lines.append('')
    for k in sorted(C):
        v = C[k]
        if isinstance(v, str):
            continue
        if isinstance(v, list):
            lines.append('Definition src_%s : list N := %s.' % (k, coq_list(v)))
        else:
            lines.append('Definition src_%s : N := %d.' % (k, v))
    for k in sorted(C):
        v = C[k]
        if isinstance(v, str) and v.startswith('LISTREF'):
            lines.append('Definition src_%s : list (list N) := [%s].' % (k, '; '.join(v.split()[1:])))
    if c13_err:
        lines.append('(* C13 constants omitted: %s *)' % c13_err.replace('*)', '* )'))
    if c05_err:
        lines.append('(* C05 constants omitted: %s *)' % c05_err.replace('*)', '* )'))
    if c11_err:
        lines.append('(* C11 constants omitted: %s *)' % c11_err.replace('*)', '* )'))
    if c19_err:
        lines.append('(* C19 version-reply glue constants omitted: %s *)' % c19_err.replace('*)', '* )'))
    lines.append('')
    text = '\n'.join(lines)
    if SOFT_MISSED:
        C['SOFT_MISSED'] = '; '.join(SOFT_MISSED)      # for the evidence only; not a Coq constant
    if c19_err:
        C['C19_GLUE_ERROR'] = c19_err      # for checks/c19.py only; not a Coq constant
    if c13_err:
        C['C13_ERROR'] = c13_err      # for checks/c13.py only; not a Coq constant
    if c11_err:
        C['C11_ERROR'] = c11_err      # for checks/c11.py only; not a Coq constant
    return text, C


def write_if_changed(path, text):
    try:
        with open(path) as f:
            if f.read() == text:
                return False
    except OSError:
        pass
    os.makedirs(os.path.dirname(path), exist_ok=True)
    tmp = path + '.tmp%d' % os.getpid()
    with open(tmp, 'w') as f:
        f.write(text)
    os.replace(tmp, path)
    return True


if __name__ == '__main__':
    if len(sys.argv) > 2 and sys.argv[2] == '--write-defaults':
        _DEFAULTS = {}
        _RECORD = dict(anchors={}, blocks={})
        generate(sys.argv[1])
        with open(DEFAULTS_PATH, 'w') as f:
            json.dump(_RECORD, f, indent=1, sort_keys=True)
        print('wrote', DEFAULTS_PATH, len(_RECORD['anchors']), 'anchors,', len(_RECORD['blocks']), 'blocks')
        sys.exit(0)
    try:
        text, _ = generate(sys.argv[1])
    except TranslatorError as e:
        print(str(e))
        sys.exit(2)
    changed = write_if_changed(sys.argv[2], text)
    print('SrcConsts.v %s' % ('rewritten' if changed else 'unchanged'))
