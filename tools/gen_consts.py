#!/usr/bin/env python3
"""Translator: re-reads /repo/src (or a snapshot of it) and regenerates
coq/Generated/SrcConsts.v -- the codec alphabets, DOWNCODECCHECK1, raw header and every
protocol constant the Coq theorems are stated against.  Every item is located by an
anchored regular expression; a missing anchor raises TranslatorError (reported by the
check driver as a broken correspondence).

Usage: gen_consts.py <srcdir> <out.v>
"""
import re, sys, os


class TranslatorError(Exception):
    pass


def read(srcdir, name):
    p = os.path.join(srcdir, name)
    try:
        with open(p, 'r', encoding='latin-1') as f:
            return f.read()
    except OSError as e:
        raise TranslatorError('translator: cannot read %s: %s' % (name, e))


def strip_comments(text):
    return re.sub(r'/\*.*?\*/', ' ', text, flags=re.S)


def parse_c_string_literals(s):
    """s: text containing one or more adjacent C string literals; returns list of ints."""
    out = []
    i = 0
    n = len(s)
    while i < n:
        if s[i] != '"':
            if s[i] in ' \t\r\n\\':
                i += 1
                continue
            raise TranslatorError('translator: unexpected char %r in string literal group' % s[i])
        i += 1
        while i < n and s[i] != '"':
            c = s[i]
            if c == '\\':
                i += 1
                c = s[i]
                if c in '01234567':
                    j = i
                    v = 0
                    while j < n and j < i + 3 and s[j] in '01234567':
                        v = v * 8 + int(s[j])
                        j += 1
                    out.append(v & 0xff)
                    i = j
                    continue
                elif c == 'x':
                    j = i + 1
                    v = 0
                    while j < n and s[j] in '0123456789abcdefABCDEF':
                        v = v * 16 + int(s[j], 16)
                        j += 1
                    out.append(v & 0xff)
                    i = j
                    continue
                else:
                    m = {'n': 10, 't': 9, 'r': 13, '0': 0, '\\': 92, '"': 34, "'": 39, 'a': 7, 'b': 8, 'f': 12, 'v': 11}
                    if c not in m:
                        raise TranslatorError('translator: unknown escape \\%s' % c)
                    out.append(m[c])
                    i += 1
                    continue
            out.append(ord(c))
            i += 1
        i += 1  # closing quote
    return out


def find_table(text, name, fname):
    m = re.search(r'static\s+const\s+(?:unsigned\s+)?char\s+' + re.escape(name) + r'\s*\[\s*\]\s*=\s*((?:\s*"(?:[^"\\]|\\.)*")+)\s*;', text)
    if not m:
        raise TranslatorError('translator: anchor table %s not found in %s' % (name, fname))
    return parse_c_string_literals(m.group(1))


def find_define_int(text, name, fname):
    m = re.search(r'^\s*#\s*define\s+' + re.escape(name) + r'\s+\(?\s*(0[xX][0-9a-fA-F]+|\d+)\s*\)?\s*(?:/\*.*)?$', text, flags=re.M)
    if not m:
        raise TranslatorError('translator: anchor #define %s not found in %s' % (name, fname))
    return int(m.group(1), 0)


def find_define_expr(text, name, fname, env):
    m = re.search(r'^\s*#\s*define\s+' + re.escape(name) + r'\s+(.+?)\s*(?:/\*.*)?$', text, flags=re.M)
    if not m:
        raise TranslatorError('translator: anchor #define %s not found in %s' % (name, fname))
    expr = m.group(1)
    if not re.fullmatch(r'[\w\s()+\-*/|&<>x]+', expr):
        raise TranslatorError('translator: #define %s has an unsupported expression %r' % (name, expr))
    try:
        return int(eval(expr, {'__builtins__': {}}, dict(env)))
    except Exception as e:
        raise TranslatorError('translator: cannot evaluate #define %s = %r: %s' % (name, expr, e))


def find_define_string(text, name, fname):
    m = re.search(r'^\s*#\s*define\s+' + re.escape(name) + r'\s*\\?\s*\n?((?:\s*"(?:[^"\\]|\\.)*"\s*\\?\s*\n?)+)', text, flags=re.M)
    if not m:
        raise TranslatorError('translator: anchor #define %s (string) not found in %s' % (name, fname))
    return parse_c_string_literals(m.group(1))


def anchored_int(text, pattern, what, fname):
    m = re.search(pattern, text, flags=re.S)
    if not m:
        raise TranslatorError('translator: anchor %s not found in %s' % (what, fname))
    return int(m.group(1), 0)


def sed_line_based(srcdir, base64_text):
    """Faithful line-based application of the sed script (s without g = first match per line)."""
    mk = read(srcdir, 'Makefile')
    m = re.search(r"sed\s+-e\s+'([^']*)'\s*<\s*base64\.c\s*>>\s*\$@", mk)
    if not m:
        raise TranslatorError('translator: anchor base64u sed rule not found in Makefile')
    cmds = []
    for cmd in m.group(1).split(';'):
        cmd = cmd.strip()
        if not cmd:
            continue
        mm = re.fullmatch(r's/(.*?)/(.*?)/(g?)', cmd)
        if not mm:
            raise TranslatorError('translator: unsupported sed command %r' % cmd)
        pat, rep, g = mm.groups()
        pat = pat.replace('\\(', '\x00').replace('\\)', '\x01')
        pat = pat.replace('(', '\\(').replace(')', '\\)').replace('+', '\\+')
        pat = pat.replace('\x00', '(').replace('\x01', ')')
        rep = re.sub(r'\\(\d)', r'\\g<\1>', rep)
        cmds.append((re.compile(pat), rep, 0 if g else 1))
    out = []
    for line in base64_text.split('\n'):
        for pat, rep, cnt in cmds:
            line = pat.sub(rep, line, count=cnt)
        out.append(line)
    return '\n'.join(out)


def coq_list(xs):
    return '[' + '; '.join(str(x) for x in xs) + ']'


def generate(srcdir):
    """Returns (coq_text, dict_of_constants)."""
    C = {}
    b32 = strip_comments(read(srcdir, 'base32.c'))
    b64raw = read(srcdir, 'base64.c')
    b64 = strip_comments(b64raw)
    b64u = strip_comments(sed_line_based(srcdir, b64raw))
    b128 = strip_comments(read(srcdir, 'base128.c'))
    C['cb32'] = find_table(b32, 'cb32', 'base32.c')
    C['cb32_ucase'] = find_table(b32, 'cb32_ucase', 'base32.c')
    C['cb64'] = find_table(b64, 'cb64', 'base64.c')
    C['cb64u'] = find_table(b64u, 'cb64', 'base64u.c (sed of base64.c)')
    C['cb128'] = find_table(b128, 'cb128', 'base128.c')
    for nm, t, f in (('BASE32_BLKSIZE_RAW', b32, 'base32.c'), ('BASE32_BLKSIZE_ENC', b32, 'base32.c'),
                     ('BASE64_BLKSIZE_RAW', b64, 'base64.c'), ('BASE64_BLKSIZE_ENC', b64, 'base64.c'),
                     ('BASE128_BLKSIZE_RAW', b128, 'base128.c'), ('BASE128_BLKSIZE_ENC', b128, 'base128.c')):
        C[nm] = find_define_int(t, nm, f)
    # number of alphabet entries iterated by *_reverse_init
    C['rev32_n'] = anchored_int(b32, r'base32_reverse_init\s*\(void\).*?for\s*\(i\s*=\s*0;\s*i\s*<\s*(\d+);', 'base32_reverse_init loop bound', 'base32.c')
    C['rev64_n'] = anchored_int(b64, r'base64_reverse_init\s*\(void\).*?for\s*\(i\s*=\s*0;\s*i\s*<\s*(\d+);', 'base64_reverse_init loop bound', 'base64.c')
    C['rev128_n'] = anchored_int(b128, r'base128_reverse_init\s*\(void\).*?for\s*\(i\s*=\s*0;\s*i\s*<\s*(\d+);', 'base128_reverse_init loop bound', 'base128.c')

    enc_h = read(srcdir, 'encoding.h')
    C['DOWNCODECCHECK1'] = find_define_string(strip_comments(enc_h), 'DOWNCODECCHECK1', 'encoding.h')
    C['DOWNCODECCHECK1_LEN'] = find_define_int(enc_h, 'DOWNCODECCHECK1_LEN', 'encoding.h')

    enc_c = strip_comments(read(srcdir, 'encoding.c'))
    C['HOSTNAME_RESERVE'] = anchored_int(enc_c, r'space\s*=\s*MIN\(\(size_t\)maxlen,\s*buflen\)\s*-\s*strlen\(topdomain\)\s*-\s*(\d+)\s*;', 'build_hostname reserve', 'encoding.c')
    C['DOT_PERIOD_BUILD'] = anchored_int(enc_c, r'space\s*-=\s*\(space\s*/\s*(\d+)\)', 'build_hostname dot period', 'encoding.c')
    C['DOT_PERIOD_DOTIFY'] = anchored_int(enc_c, r'dots\s*=\s*total\s*/\s*(\d+)\s*;', 'inline_dotify dot period', 'encoding.c')
    C['DOT_PERIOD_DOTIFY2'] = anchored_int(enc_c, r'pos\s*%\s*(\d+)\s*==\s*0', 'inline_dotify pos period', 'encoding.c')

    user_h = read(srcdir, 'user.h')
    for nm in ('USERS', 'OUTPACKETQ_LEN', 'DNSCACHE_LEN', 'QMEMPING_LEN', 'QMEMDATA_LEN'):
        C[nm] = find_define_int(user_h, nm, 'user.h')
    fw_h = read(srcdir, 'fw_query.h')
    C['FW_QUERY_CACHE_SIZE'] = find_define_int(fw_h, 'FW_QUERY_CACHE_SIZE', 'fw_query.h')
    common_h = read(srcdir, 'common.h')
    C['QUERY_NAME_SIZE'] = find_define_int(common_h, 'QUERY_NAME_SIZE', 'common.h')
    C['RAW_HDR_LEN'] = find_define_int(common_h, 'RAW_HDR_LEN', 'common.h')
    C['RAW_HDR_IDENT_LEN'] = find_define_int(common_h, 'RAW_HDR_IDENT_LEN', 'common.h')
    C['RAW_HDR_CMD'] = find_define_int(common_h, 'RAW_HDR_CMD', 'common.h')
    for nm in ('RAW_HDR_CMD_LOGIN', 'RAW_HDR_CMD_DATA', 'RAW_HDR_CMD_PING', 'RAW_HDR_CMD_MASK', 'RAW_HDR_USR_MASK'):
        C[nm] = find_define_int(common_h, nm, 'common.h')
    C['T_PRIVATE'] = find_define_int(common_h, 'T_PRIVATE', 'common.h')
    C['DNS_PORT'] = find_define_int(common_h, 'DNS_PORT', 'common.h')
    version_h = read(srcdir, 'version.h')
    C['PROTOCOL_VERSION'] = find_define_int(version_h, 'PROTOCOL_VERSION', 'version.h')
    # raw_header
    common_c = strip_comments(read(srcdir, 'common.c'))
    m = re.search(r'const\s+unsigned\s+char\s+raw_header\s*\[\s*RAW_HDR_LEN\s*\]\s*=\s*\{([^}]*)\}', common_c)
    if not m:
        raise TranslatorError('translator: anchor raw_header not found in common.c')
    C['raw_header'] = [int(x.strip(), 0) for x in m.group(1).split(',') if x.strip()]
    C['RECENT_SEQNO_WINDOW'] = anchored_int(common_c, r'recent_seqno\s*\(int ourseqno,\s*int gotseqno\).*?for\s*\(i\s*=\s*0;\s*i\s*<\s*(\d+);', 'recent_seqno window', 'common.c')
    C['TOPDOMAIN_MIN'] = anchored_int(common_c, r'check_topdomain.*?strlen\(str\)\s*<\s*(\d+)', 'check_topdomain min', 'common.c')
    C['TOPDOMAIN_MAX'] = anchored_int(common_c, r'check_topdomain.*?strlen\(str\)\s*>\s*(\d+)', 'check_topdomain max', 'common.c')
    C['TOPDOMAIN_LABEL_MAX'] = anchored_int(common_c, r'check_topdomain.*?chunklen\s*>\s*(\d+)', 'check_topdomain label max', 'common.c')

    read_c = strip_comments(read(srcdir, 'read.c'))
    C['PUTNAME_LABEL_MAX'] = anchored_int(read_c, r'strlen\(word\)\s*>\s*(\d+)', 'putname label limit', 'read.c')
    C['TXT_CHUNK'] = anchored_int(read_c, r'if\s*\(tocopy\s*>\s*(\d+)\)\s*tocopy\s*=\s*\1', 'puttxtbin chunk', 'read.c')
    C['READNAME_LOOPS'] = anchored_int(read_c, r'return\s+readname_loop\(packet,\s*packetlen,\s*src,\s*dst,\s*length,\s*(\d+)\)', 'readname loop bound', 'read.c')

    user_c = strip_comments(read(srcdir, 'user.c'))
    C['USER_TIMEOUT'] = anchored_int(user_c, r'find_user_by_ip.*?last_pkt\s*\+\s*(\d+)\s*>\s*time', 'find_user_by_ip timeout', 'user.c')
    C['USER_TIMEOUT_AVAIL'] = anchored_int(user_c, r'find_available_user.*?last_pkt\s*\+\s*(\d+)\s*<\s*time', 'find_available_user timeout', 'user.c')
    C['USER_RESERVED_ADDRS'] = anchored_int(user_c, r'maxusers\s*=\s*\(1\s*<<\s*\(32\s*-\s*netbits\)\)\s*-\s*(\d+)\s*;', 'init_users reserved', 'user.c')
    C['USER_DEFAULT_FRAGSIZE_V'] = anchored_int(user_c, r'find_available_user.*?fragsize\s*=\s*(\d+)\s*;', 'find_available_user fragsize', 'user.c')

    # C19: login_calculate -- bytes copied from the password buffer, 32-bit words xored, bytes hashed
    login_c = strip_comments(read(srcdir, 'login.c'))
    C['LOGIN_COPY'] = anchored_int(login_c, r'login_calculate\s*\(.*?memcpy\s*\(\s*temp\s*,\s*pass\s*,\s*(\d+)\s*\)', 'login_calculate memcpy length', 'login.c')
    C['LOGIN_WORDS'] = anchored_int(login_c, r'login_calculate\s*\(.*?for\s*\(\s*i\s*=\s*0\s*;\s*i\s*<\s*(\d+)\s*;\s*i\+\+\s*\)', 'login_calculate word loop bound', 'login.c')
    C['LOGIN_MD5_LEN'] = anchored_int(login_c, r'login_calculate\s*\(.*?md5_append\s*\(\s*&ctx\s*,\s*temp\s*,\s*(\d+)\s*\)', 'login_calculate md5_append length', 'login.c')

    lines = []
    lines.append('(* GENERATED by tools/gen_consts.py from the repository sources on every run. DO NOT EDIT. *)')
    lines.append('From Coq Require Import List NArith.')
    lines.append('Import ListNotations.')
    lines.append('Local Open Scope N_scope.')
    lines.append('')
    for k in sorted(C):
        v = C[k]
        if isinstance(v, list):
            lines.append('Definition src_%s : list N := %s.' % (k, coq_list(v)))
        else:
            lines.append('Definition src_%s : N := %d.' % (k, v))
    lines.append('')
    return '\n'.join(lines), C


def write_if_changed(path, text):
    try:
        with open(path) as f:
            if f.read() == text:
                return False
    except OSError:
        pass
    os.makedirs(os.path.dirname(path), exist_ok=True)
    tmp = path + '.tmp%d' % os.getpid()
    with open(tmp, 'w') as f:
        f.write(text)
    os.replace(tmp, path)
    return True


if __name__ == '__main__':
    try:
        text, _ = generate(sys.argv[1])
    except TranslatorError as e:
        print(str(e))
        sys.exit(2)
    changed = write_if_changed(sys.argv[2], text)
    print('SrcConsts.v %s' % ('rewritten' if changed else 'unchanged'))
