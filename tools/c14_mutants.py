"""apply one of the C14 breaking edits to a scratch copy of /repo, run ./check C14 against it, print the verdict"""
import os, sys, subprocess, shutil
ROOT = os.path.join(os.path.dirname(os.path.abspath(__file__)), '..')   # tools/ -> root
which = sys.argv[1:] or ['1', '2', '3', '4', '5']


def edit(path, old, new, count=1):
    s = open(path).read()
    assert s.count(old) >= 1, 'pattern not found: %r' % old[:60]
    s = s.replace(old, new, count)
    open(path, 'w').write(s)


for m in which:
    d = '/tmp/c14-mut%s' % m
    shutil.rmtree(d, ignore_errors=True)
    subprocess.run(['rsync', '-a', '/repo/', d + '/'], check=True)
    f = os.path.join(d, 'src', 'iodined.c')
    if m == '1':
        subprocess.run(['patch', '-s', '-d', d, '-p1', '-i', os.path.join(ROOT, 'seeded/revert-fix-D11-raw-stale-query/patch.diff')], check=True)
        what = 'revert of fix D11 (uninitialised query stored by raw handlers)'
    elif m == '2':
        edit(f, '\tq->id = 0;\t\t\t/* this query is used */\n', '\t/* mutant */\n')
        what = 'send_chunk_or_dataless does not clear q->id'
    elif m == '3':
        edit(f, '\t\tif (users[userid].q.id != 0) {\n\t\t\tdidsend = 1;\n\t\t\tif (send_chunk_or_dataless(dns_fd, userid, &users[userid].q) == 1)',
             '\t\tif (1) {\n\t\t\tdidsend = 1;\n\t\t\tif (send_chunk_or_dataless(dns_fd, userid, &users[userid].q) == 1)')
        what = 'ping handler answers users[].q even when it is free'
    elif m == '4':
        edit(f, '\t\t\tfprintf(stderr, "OUT  again to last duplicate\\n");\n\t\twrite_dns(dns_fd, q, pkt, datalen + 2, users[userid].downenc);\n',
             '\t\t\tfprintf(stderr, "OUT  again to last duplicate\\n");\n\t\twrite_dns(dns_fd, q, pkt, datalen + 2, users[userid].downenc);\n'
             '\t\twrite_dns(dns_fd, q, pkt, datalen + 2, users[userid].downenc);\n')
        what = 'remembered duplicate (id2) answered twice'
    elif m == '5':
        edit(f, '\t\t\t\tusers[userid].q.id = 0;  /* used */\n\t\t\t\tdidsend = 1;\n', '\t\t\t\tusers[userid].q.id = 0;  /* used */\n')
        what = 'handle_data: didsend not set after parking q in q_sendrealsoon (overwritten while held)'
    elif m == '6':
        # extra: the data handler remembers a duplicate of q_sendrealsoon but also goes on processing it
        edit(f, '\t\t\tusers[userid].q_sendrealsoon.id2 = q->id;\n', '\t\t\tusers[userid].q_sendrealsoon.id2 = q->id;\n\t\t\twrite_dns(dns_fd, q, "x", 1, \'T\');\n')
        what = 'duplicate of q_sendrealsoon remembered AND answered at once'
    elif m == '7':
        # extra: tunnel_tun answers q although q_sendrealsoon was just answered (else removed)
        edit(f, '\t\t} else if (users[userid].q.id != 0) {\n\t\t\tint dns_fd = get_dns_fd(dns_fds, &users[userid].q.from);\n\t\t\tsend_chunk_or_dataless(dns_fd, userid, &users[userid].q);',
             '\t\t} else {\n\t\t\tint dns_fd = get_dns_fd(dns_fds, &users[userid].q.from);\n\t\t\tsend_chunk_or_dataless(dns_fd, userid, &users[userid].q);')
        what = 'tunnel_tun answers users[].q without testing q.id'
    diff = subprocess.run(['diff', '/repo/src/iodined.c', f], stdout=subprocess.PIPE, text=True).stdout
    print('=== mutant %s: %s (%d diff lines)' % (m, what, len(diff.split('\n'))), flush=True)
    env = dict(os.environ, VERIF_REPO=d)
    p = subprocess.run([os.path.join(ROOT, 'check'), 'C14'], stdout=subprocess.PIPE, stderr=subprocess.STDOUT, text=True, env=env, cwd=ROOT)
    lines = [l for l in p.stdout.split('\n') if l.startswith(('#', 'VIOLATION', 'OK', 'KNOWN'))]
    for l in lines[-3:]:
        print('   ', l[:420], flush=True)
    shutil.rmtree(d, ignore_errors=True)
